#!/bin/sh
# Build /verif/.venv: overlay on /venv (repo deps: ruamel.yaml, pytest) + /repo on the path
# + crosshair-tool (with z3-solver) from the offline wheelhouse. Idempotent.
set -e
HERE="$(cd "$(dirname "$0")" && pwd)"
V="$HERE/.venv"
if [ -x "$V/bin/python" ] && "$V/bin/python" -c "import crosshair, z3, valida" >/dev/null 2>&1; then
    exit 0
fi
rm -rf "$V"
/venv/bin/python -m venv "$V"
SP="$("$V/bin/python" -c 'import sysconfig; print(sysconfig.get_paths()["purelib"])')"
printf '%s\n%s\n' "import site; site.addsitedir('/venv/lib/python3.12/site-packages')" "/repo" > "$SP/_overlay.pth"
PIP_NO_INDEX=1 "$V/bin/pip" install -q --no-index --find-links /opt/veriftools/wheels crosshair-tool >/dev/null
"$V/bin/python" -c "import crosshair, z3, valida; print('verif venv ready: crosshair', crosshair.__version__ if hasattr(crosshair,'__version__') else '', 'z3', z3.get_version_string())"
