"""C19 - malformed specs are rejected with spec errors, never internal ones."""
import re

from engine.runner import mk_case
from engine import terms

U3 = "Union[int, str, None]"
ALLOWED = "(MalformedConditionLikeSpec, MalformedDataPathSpec, MalformedRuleSpec, MalformedContainerItemSpec, TypeError, ValueError)"

REJECT = f"""
rejected = False
try:
    PARSE
except {ALLOWED}:
    rejected = True
return note('malformed spec must be rejected', rejected)
"""
REJECT_KEYERR = f"""
rejected = False
try:
    PARSE
except {ALLOWED}:
    rejected = True
except KeyError as e:
    rejected = e.args == (FIELD,)
return note('malformed spec must be rejected (KeyError must name the missing rule field)', rejected)
"""
TOLERATE = f"""
try:
    PARSE
except {ALLOWED}:
    pass
except KeyError as e:
    return note('KeyError may only name a missing rule field', e.args in (('path',), ('condition',)) and RULEISH)
return True
"""


def BOUNDS(ctx):
    return {
        "definite errors (must be rejected)": "unknown datum kind / pre-processor / callable / type name / path suffix / part type / cast "
            "type / part argument, wrong arity or shape, several keys, missing rule field. The *names* are the documented vocabularies "
            "plus, regenerated from the current source on every run, every other attribute name (dir()) of the seven DSL classes and "
            "of DataPath - which is where unknown names are wrongly accepted",
        "structural mutation (accepted or listed error)": "payload under each fixed key drawn from the skeletons int, str, None, bool, "
            "float, [], [i], [s, i], [[i]], [{'k': i}], {}, {'k': i}, {s: i} with symbolic atoms (s pooled), at 16 positions of "
            "condition / part / path / rule / schema specs",
        "allowed": ALLOWED + " or KeyError naming the missing rule field",
        "symbolic": "payload atoms and argument values; names and payload skeletons are enumerated",
        "outside": "`{'value.truthy': 5}` (an argument for an argument-less callable) is accepted with a warning by design; not counted "
                   "as a definite arity error",
    }


PAYLOADS = [
    ("int", "i", [("i", "int")], "I64(i)"),
    ("str", "s", [("s", "str")], "len(s) <= 2"),
    ("none", "None", [], None),
    ("bool", "b", [("b", "bool")], None),
    ("float", "1.5", [], None),
    ("list0", "[]", [], None),
    ("list1", "[i]", [("i", "int")], "I64(i)"),
    ("list2", "[s, i]", [("s", "str"), ("i", "int")], "len(s) <= 2 and I64(i)"),
    ("listlist", "[[i]]", [("i", "int")], "I64(i)"),
    ("listdict", "[{'k': i}]", [("i", "int")], "I64(i)"),
    ("dict0", "{}", [], None),
    ("dict1", "{'k': i}", [("i", "int")], "I64(i)"),
    ("dictsym", "{s: i}", [("s", "str"), ("i", "int")], "s in ('path', 'type', 'value', 'k', '') and I64(i)"),
    ("dictint", "{5: i}", [("i", "int")], "I64(i)"),
]

# (id, parse expression with P as the payload hole, is it a rule/schema spec)
POSITIONS = [
    ("cond.whole", "ConditionLike.from_spec(P)", False),
    ("cond.arg.in_range", "ConditionLike.from_spec({'value.in_range': P})", False),
    ("cond.arg.equal_to", "ConditionLike.from_spec({'value.equal_to': P})", False),
    ("cond.arg.is_instance", "ConditionLike.from_spec({'value.is_instance': P})", False),
    ("cond.arg.dtype", "ConditionLike.from_spec({'value.dtype.equal_to': P})", False),
    ("cond.arg.items_contain", "ConditionLike.from_spec({'value.items_contain': P})", False),
    ("cond.arg.n_of", "ConditionLike.from_spec({'value.keys_contain_N_of': P})", False),
    ("cond.and", "ConditionLike.from_spec({'and': P})", False),
    ("cond.and.item", "ConditionLike.from_spec({'or': [{'value.truthy': None}, P]})", False),
    ("part.whole", "ContainerValue.from_spec(P)", False),
    ("part.type", "ContainerValue.from_spec({'type': P})", False),
    ("part.key", "ContainerValue.from_spec({'type': 'map_value', 'key': P})", False),
    ("part.value", "ContainerValue.from_spec({'type': 'list_value', 'value': P})", False),
    ("part.condition", "ContainerValue.from_spec({'condition': P})", False),
    ("part.short", "ContainerValue.from_spec({'type': 'map_value', 'key.eq': P})", False),
    ("path.whole", "DataPath.from_spec(P)", False),
    ("path.parts", "DataPath.from_spec({'path': P})", False),
    ("path.part_specs", "DataPath.from_part_specs('a', P)", False),
    ("rule.whole", "Rule.from_spec(P)", True),
    ("rule.path", "Rule.from_spec({'path': P, 'condition': {}})", True),
    ("rule.condition", "Rule.from_spec({'path': ['a'], 'condition': P})", True),
    ("rule.cast", "Rule.from_spec({'path': ['a'], 'condition': {}, 'cast': P})", True),
    ("rule.cast.from", "Rule.from_spec({'path': ['a'], 'condition': {}, 'cast': {'str': P}})", True),
    ("rule.doc", "Rule.from_spec({'path': ['a'], 'condition': {}, 'doc': P})", True),
    ("rule.doc.description", "Rule.from_spec({'path': ['a'], 'condition': {}, 'doc': {'description': P}})", True),
    ("rule.doc.examples", "Rule.from_spec({'path': ['a'], 'condition': {}, 'doc': {'description': 'd', 'examples': P}})", True),
    ("schema.whole", "Schema.from_json_like(P)", True),
    ("schema.item", "Schema.from_json_like([{'path': ['a'], 'condition': {}}, P])", True),
]


def dsl_names(cls):
    """the names the DSL defines for this class (callables + aliases)"""
    names = set(terms.GENERAL) | set(terms.ALIASES)
    if hasattr(cls, "keys_contain"):
        names |= set(terms.MAPC)
    return names


def cases(ctx):
    out = []
    import valida.conditions as C
    import valida.datapath as P

    def reject(cid, parse, params=(), pre=None, field=None):
        body = (REJECT if field is None else REJECT_KEYERR.replace("FIELD", repr(field))).replace("PARSE", parse)
        out.append(mk_case(cid, list(params), body, pre=[pre] if pre else [], stubs=["sym_repr"]))

    CF = "ConditionLike.from_spec"
    u = [("a", U3)]
    upre = "BU(2, a)"
    # ---- (a) definite errors
    # unknown datum kinds
    for n, k in enumerate(["vals.equal_to", "valuee.equal_to", ".equal_to", "", "equal_to", "Values.eq", "value", "key", "index", "path", "value_equal_to", "and.value"]):
        reject(f"c19.def.datum_kind.{n}", f"{CF}({{{k!r}: a}})", u, upre)
    # unknown / inapplicable pre-processors, wrong token counts
    for n, k in enumerate(["value.size.equal_to", "value.lengths.eq", "index.length.eq", "index.dtype.eq", "value.length", "value.dtype",
                           "value.length.dtype.eq", "value.len.len.eq", "key.type", "value..eq", "value.length.", "value.filter.eq",
                           "value.callable.eq", "key.js_like_label.eq"]):
        reject(f"c19.def.preproc.{n}", f"{CF}({{{k!r}: a}})", u, upre)
    # unknown callables: documented-style typos + every non-DSL attribute name of the live classes
    for n, k in enumerate(["value.equals", "value.eq_", "value.less", "value.keys_contains", "index.keys_contain", "value.length.keys_contain",
                           "key.dtype.allowed_keys", "value.", "value.in__", "value.not", "value.isinstance"]):
        reject(f"c19.def.callable.typo.{n}", f"{CF}({{{k!r}: a}})", u, upre)
    classes = [("value", None, C.Value), ("value", "length", C.ValueLength), ("value", "dtype", C.ValueDataType), ("key", None, C.Key),
               ("key", "length", C.KeyLength), ("key", "dtype", C.KeyDataType), ("index", None, C.Index)]
    for kind, pre, cls in classes:
        legit = {x.lower() for x in dsl_names(cls)} | {"in"}
        others = sorted({nm for nm in dir(cls) if nm.lower() not in legit and "." not in nm})
        if ctx.quick and (kind, pre) != ("value", None):
            others = [nm for nm in others if not nm.startswith("__")]
            others = others[:: 3] if (kind, pre) != ("key", None) else others[:: 2]
        for nm in others:
            if pre in ("length", "dtype") and nm in ("length", "dtype"):
                continue
            key = ".".join([kind] + ([pre] if pre else []) + [nm])
            for pid, psrc, pparams, ppre in ([PAYLOADS[0]] if ctx.quick and (kind, pre) != ("value", None) else [PAYLOADS[0], PAYLOADS[6], PAYLOADS[11], PAYLOADS[2]]):
                if pre == "dtype" and pid != "none":
                    psrc, pparams, ppre = "'int'", [], None
                    if pid != "int":
                        continue
                reject(f"c19.def.callable.attr.{kind}{'.' + pre if pre else ''}.{nm}.{pid}", f"{CF}({{{key!r}: {psrc}}})", pparams, ppre)
    # unknown type names
    for n, (k, v) in enumerate([("value.dtype.equal_to", "'integer'"), ("value.dtype.eq", "'strr'"), ("value.type.in", "['int', 'number']"),
                                ("value.is_instance", "['int', 'mapping']"), ("value.keys_is_instance", "['string']"), ("key.dtype.eq", "''"),
                                ("value.dtype.eq", "'type'"), ("value.dtype.eq", "'none'"), ("value.is_instance", "[None]"),
                                ("value.dtype.eq", "5"), ("value.is_instance", "[5]"), ("value.dtype.in", "[int, 'x']")]):
        reject(f"c19.def.type_name.{n}", f"{CF}({{{k!r}: {v}}})")
    reject("c19.def.type_name.sym", f"{CF}({{'value.dtype.equal_to': s}})", [("s", "str")], "len(s) <= 1")
    # wrong arity / argument shape
    for n, (k, v) in enumerate([("value.in_range", "a"), ("value.in_range", "[a]"), ("value.in_range", "[a, 1, 2]"), ("value.in_range", "{'lower': a}"),
                                ("value.in_range", "{'lower': a, 'upper': 2, 'step': 1}"), ("value.in_range", "{'low': a, 'upper': 2}"),
                                ("value.equal_to_approx", "a"), ("value.equal_to_approx", "[a, 1, 2]"), ("value.equal_to_approx", "{'tolerance': a}"),
                                ("value.is_instance", "'int'"), ("value.is_instance", "{'a': 'int'}"), ("value.keys_contain_any_of", "a"),
                                ("value.keys_contain_any_of", "{'k': a}"), ("value.items_contain", "[a]"), ("value.items_contain", "a" if False else "5"),
                                ("value.keys_contain_N_of", "[a]"), ("value.keys_contain_N_of", "{'N': a}"), ("value.keys_contain_N_of", "{'n': a, 'keys': ['k']}"),
                                ("value.not_in_range", "[a]"), ("value.not_in_range", "{'value': a}")]):
        reject(f"c19.def.arity.{n}", f"{CF}({{{k!r}: {v}}})", u, upre)
    # several keys / wrong container shapes
    reject("c19.def.several_keys", f"{CF}({{'value.equal_to': a, 'value.gt': 1}})", u, upre)
    reject("c19.def.several_keys.binop", f"{CF}({{'and': [], 'or': []}})")
    reject("c19.def.binop.not_list", f"{CF}({{'and': {{'value.equal_to': a}}}})", u, upre)
    reject("c19.def.binop.item_not_map", f"{CF}({{'and': [{{'value.truthy': None}}, a]}})", [("a", "int")], "I64(a) and a != 0")
    reject("c19.def.binop.item_several", f"{CF}({{'or': [{{'value.eq': a, 'value.gt': 1}}]}})", u, upre)
    reject("c19.def.spec_not_map", f"{CF}([{{'value.eq': a}}])", u, upre)
    reject("c19.def.spec_scalar", f"{CF}(a)", [("a", "int")], "I64(a) and a != 0")
    reject("c19.def.nonstr_key", f"{CF}({{a: 1}})", [("a", "int")], "a in (0, 5)")
    reject("c19.def.nonstr_key.none", f"{CF}({{None: 1}})")
    reject("c19.def.nonstr_key.tuple", f"{CF}({{('value', 'eq'): 1}})")
    # path specs: unknown suffixes (typos + every other attribute of DataPath), wrong shapes
    DF = "DataPath.from_spec"
    for n, k in enumerate(["path.size", "path.keys", "path.firsts", "path.length.length", "path.first.last", "path.length.first.x", "paths", "pat", "",
                           "path.", "path..first", "path.map_keys.map_values", "data.path", "path.length.dtype", "path.any.x"]):
        reject(f"c19.def.path_suffix.typo.{n}", f"{DF}({{{k!r}: ['a', {{'type': 'map_value'}}]}})")
    legit_path = {"length", "dtype", "map_keys", "map_values", "first", "last", "single", "all", "any", "type", "len"}
    pnames = sorted({nm for nm in dir(P.DataPath) if nm.lower() not in legit_path})
    for nm in (pnames if not ctx.quick else [x for x in pnames if not x.startswith("__")]):
        reject(f"c19.def.path_suffix.attr.{nm}", f"{DF}({{{'path.' + nm!r}: ['a', {{'type': 'map_value'}}]}})")
        if not ctx.quick:
            reject(f"c19.def.path_suffix.attr2.{nm}", f"{DF}({{{'path.first.' + nm!r}: ['a', {{'type': 'map_value'}}]}})")
    reject("c19.def.path.concrete_multi", f"{DF}({{'path.first': ['a', 'b']}})")
    reject("c19.def.path.several_keys", f"{DF}({{'path': ['a'], 'path.length': ['b']}})")
    reject("c19.def.path.not_map", f"{DF}(['a', 'b'])")
    reject("c19.def.path.parts_scalar", f"{DF}({{'path': a}})", [("a", "int")], "I64(a)")
    reject("c19.def.path.part_none", f"{DF}({{'path': ['a', None]}})")
    reject("c19.def.path.part_list", f"{DF}({{'path': ['a', [a]]}})", [("a", "int")], "I64(a)")
    bad_parts = [("unknown_part_type", "['a', {'type': 'set_value'}]"), ("unknown_part_arg", "['a', {'type': 'list_value', 'indx': 0}]"),
                 ("other_kind_arg", "['a', {'type': 'map_value', 'index.equal_to': 0}]"), ("key_not_keylike", "['a', {'type': 'map_value', 'key': {'value.eq': 1}}]"),
                 ("parts_scalar", "5"), ("part_none", "['a', None]")]
    for bid, parts in bad_parts:
        pspec = f"{{'path.first': {parts}}}"
        reject(f"c19.def.cond.patharg.{bid}", f"{CF}({{'value.equal_to': {pspec}}})")
        reject(f"c19.def.cond.patharg.in_list.{bid}", f"{CF}({{'value.in': [1, {pspec}]}})")
        reject(f"c19.def.cond.patharg.in_map.{bid}", f"{CF}({{'value.in_range': {{'lower': 0, 'upper': {pspec}}}}})")
        reject(f"c19.def.rule.cond.patharg.{bid}", f"Rule.from_spec({{'path': ['b'], 'condition': {{'value.equal_to': {pspec}}}}})")
    # part specs
    CV = "ContainerValue.from_spec"
    for n, v in enumerate(["'dict_value'", "'map'", "'list'", "''", "'MAP_VALUE'", "None", "5", "'map_or_list'"]):
        reject(f"c19.def.part_type.{n}", f"{CV}({{'type': {v}}})")
    for n, (t, k) in enumerate([("map_value", "foo"), ("map_value", "index"), ("map_value", "index.eq"), ("list_value", "key"), ("list_value", "key.eq"),
                                ("map_value", "keys"), ("list_value", "values"), ("map_or_list_value", "cond"), ("map_value", "list_condition"),
                                ("list_value", "map_condition"), ("map_value", "Label"), ("map_value", "valuee.eq")]):
        reject(f"c19.def.part_arg.{n}", f"{CV}({{'type': {t!r}, {k!r}: {{'value.truthy': None}}}})")
    reject("c19.def.part.key_not_keylike", f"{CV}({{'type': 'map_value', 'key': {{'value.eq': a}}}})", u, upre)
    reject("c19.def.part.index_not_indexlike", f"{CV}({{'type': 'list_value', 'index': {{'key.eq': a}}}})", u, upre)
    reject("c19.def.part.value_not_valuelike", f"{CV}({{'type': 'list_value', 'value': {{'index.eq': a}}}})", u, upre)
    reject("c19.def.part.key_index_mix", f"{CV}({{'type': 'map_value', 'condition': {{'and': [{{'key.eq': a}}, {{'index.eq': 1}}]}}}})", u, upre)
    reject("c19.def.part.mol.key_not_keylike", f"{CV}({{'key': {{'index.eq': a}}}})", u, upre)
    # rule specs
    RF = "Rule.from_spec"
    reject("c19.def.rule.missing_path", f"{RF}({{'condition': {{'value.eq': a}}}})", u, upre, field="path")
    reject("c19.def.rule.missing_condition", f"{RF}({{'path': ['a']}})", field="condition")
    reject("c19.def.rule.missing_both", f"{RF}({{'cast': {{'str': 'int'}}}})", field="path")
    reject("c19.def.rule.empty", f"{RF}({{}})", field="path")
    for n, (f, t) in enumerate([("'str'", "'float'"), ("'bytes'", "'int'"), ("'int'", "'str'"), ("'str'", "'str'"), ("'string'", "'bool'"),
                                ("'str'", "'boolean'"), ("'STR'", "'int'"), ("str", "int"), ("'bool'", "'int'"), ("'str'", "None"), ("None", "'int'"), ("5", "'int'")]):
        reject(f"c19.def.cast_type.{n}", f"{RF}({{'path': ['a'], 'condition': {{}}, 'cast': {{{f}: {t}}}}})")
    reject("c19.def.rule.bad_condition", f"{RF}({{'path': ['a'], 'condition': {{'value.flatten': a}}}})", u, upre)
    reject("c19.def.rule.bad_path_part", f"{RF}({{'path': ['a', {{'type': 'tuple_value'}}], 'condition': {{}}}})")
    reject("c19.def.schema.item_missing_field", "Schema.from_json_like([{'path': ['a'], 'condition': {}}, {'path': ['b']}])", field="condition")
    # history: the same definite errors after well-formed specs of the same datum kind were parsed in this process
    warm = ["{'value.equal_to': 1}", "{'value.keys_contain': 'k'}", "{'key.equal_to': 'a'}", "{'key.allowed_keys': ['a']}", "{'value.length.eq': 1}",
            "{'value.dtype.eq': 'int'}", "{'index.eq': 0}", "{'key.length.lt': 3}"]
    hist = ["value.length.keys_contain", "key.length.allowed_keys", "value.dtype.items_contain", "key.dtype.required_keys", "index.keys_contain",
            "index.length.eq", "value.length.keys_is_instance", "value.length.length", "value.flatten", "index.dtype.eq"]
    for n, k in enumerate(hist):
        body = (REJECT.replace("PARSE", "for w in (" + ", ".join(warm) + "):\n        ConditionLike.from_spec(w)\n    " + f"{CF}({{{k!r}: a}})"))
        out.append(mk_case(f"c19.def.history.{n}", list(u), body, pre=[upre], stubs=["sym_repr"]))
    import valida.datapath as _P
    enum_names = sorted({m.name.lower() for e in (_P.DataPathDatumType, _P.DataPathMultiType) for m in e} - legit_path)
    for nm in enum_names + ["none.none", "none.length", "first.none", "length.none"]:
        reject(f"c19.def.path_suffix.enum.{nm}", f"{DF}({{{'path.' + nm!r}: [{{'type': 'map_value'}}]}})")
        reject(f"c19.def.path_suffix.enum.upper.{nm}", f"{DF}({{{'Path.' + nm.upper()!r}: ['a', {{'type': 'list_value'}}]}})")
    # ---- (b) structural mutation: accepted or a listed error, never an internal one
    for posid, parse, ruleish in POSITIONS:
        for pid, psrc, pparams, ppre in PAYLOADS:
            body = TOLERATE.replace("PARSE", re.sub(r"\bP\b", psrc, parse)).replace("RULEISH", repr(ruleish))
            out.append(mk_case(f"c19.mut.{posid}.{pid}", list(pparams), body, pre=[ppre] if ppre else [], stubs=["sym_repr"]))
    return out
