"""C15 - casts replace exactly the castable selected nodes in a private copy."""
from engine.runner import mk_case

UN = "Union[int, bool, None]"
POOL = ["'true'", "'False'", "'TRUE'", "'3'", "'-2'", "'x'", "''", "'1.5'", "' 7 '", "'fAlSe'", "'007'", "'truee'", "'inf'", "'1e999'", "'3.0'", "'nan'", "'1e3'", "'yes'", "'true\\n'", "'False\\n'", "'3\\n'", "'\\ntrue'"]
CASTS = {"bool": "{str: valida.casting.cast_string_to_bool}", "int": "{str: int}"}

# (id, path term source, doc source with S1/S2 castable positions and u1 symbolic leaf)
SHAPES = [
    ("strkey", "(('prim', 'a'),)", "{'a': S1, 'b': S2, 'c': u1}"),
    ("intkey", "(('prim', 1),)", "{1: S1, 2: S2, 'c': u1}"),
    ("boolkey", "(('prim', True),)", "{True: S1, 'b': S2, 'c': u1}"),
    ("floatkey", "(('prim', 1.5),)", "{1.5: S1, 'b': S2, 'c': u1}"),
    ("nonekey", "(('map', K('equal_to', None)),)", "{None: S1, 'b': S2, 'c': u1}"),
    ("fan.map", "(('map', NULL),)", "{'a': S1, 2: S2, None: u1, 1.5: [S1], True: {'k': S2}}"),
    ("fan.list", "(('list', NULL),)", "[S1, u1, S2, [S1], None]"),
    ("fan.mol", "(('mol', NULL, NULL, NULL),)", "[S1, u1, S2]"),
    ("listindex", "(('prim', 'l'), ('prim', 1))", "{'l': [S2, S1, u1], 'm': S1}"),
    ("listindex.sym", "(('prim', 'l'), ('prim', i))", "{'l': [S2, S1, u1], 'm': S1}"),
    ("list.fan", "(('prim', 'l'), ('list', NULL))", "{'l': [S1, u1, S2], 'm': S2}"),
    ("nested", "(('mol', NULL, NULL, NULL), ('mol', NULL, NULL, NULL))", "{'a': [S1, u1], 1: {None: S2, 2: S1}, 'c': S1, 'd': [[S2]]}"),
    # fan-out followed by further parts, where earlier siblings cannot be descended into (scalar, empty, other container kind)
    ("midpath.scalar_before", "(('map', NULL), ('map', NULL))", "{'a': u1, 'e': {}, 'b': {'k': S1, 'j': S2}, 's': 'x'}"),
    ("midpath.empty_before", "(('list', NULL), ('map', NULL))", "[{0: S2}, {}, u1, {0: S1}]"),
    ("midpath.otherkind_before", "(('map', NULL), ('prim', 'k'))", "{'a': [S2], 'b': u1, 'c': {'k': S1}, 'd': {'k': S2}}"),
    ("midpath.three_parts", "(('prim', 'jobs'), ('mol', NULL, NULL, NULL), ('mol', NULL, NULL, NULL))", "{'jobs': [u1, [], {'p': S1}, None, [S2, 'x']]}"),
    ("keycond", "(('map', K('not_equal_to', k)),)", "{'a': S1, 'b': S2, 'c': u1}"),
    ("empty", "()", "{'a': S1, 'c': u1}"),
    ("missing", "(('prim', 'zz'), ('prim', 'y'))", "{'a': S1, 'c': u1}"),
]
EXTRA = {"listindex.sym": [("i", "int")], "keycond": [("k", "str")]}


def BOUNDS(ctx):
    return {
        "schemas": "one cast rule (str->bool or str->int) per path shape: string/int/bool/float/None keys, list indices (concrete and "
                   "symbolic), fan-out over mapping/list/either, two-level fan-out, key-conditioned part, empty path, missing path; "
                   "two-rule schemas with a str->bool and a str->int rule on disjoint regions",
        "cast strings": "concrete pool " + ", ".join(POOL) + " over two castable positions (quick: rotating pairs; thorough: all pairs); "
                        "expected conversions come from an independent table (engine/oracle.py CAST_TABLE)",
        "symbolic": "the non-castable leaves (Union[int,bool,None]) and the condition threshold; symbolic list index / key",
        "outside": "parsing done by the cast functions on arbitrary (symbolic) strings: str.lower() per code point and int(str) "
                   "realise; paths with value conditions (selection on the original vs judged on the copy may differ by design)",
    }


def cast_case(sid, pt, doc, kind, s1, s2, L, tag):
    params = list(EXTRA.get(sid, [])) + [("u1", UN), ("t", "int")]
    pn = ", ".join(p[0] for p in params)
    doc = doc.replace("S1", s1).replace("S2", s2)
    cond_t = "V('equal_to', t)" if kind == "int" else "V('equal_to', True)"
    body = f"""
PT = {pt}
CT = {cond_t}
doc = {doc}
before = tx(doc)
rule = Rule(build_path(PT), build_cond(CT), cast={CASTS[kind]})
sch = Schema([rule])
v = sch.validate(doc)
exp = ref_cast([(PT, {kind!r})], doc)
ok = same('cast_data', tx(v.cast_data), tx(exp))
ok = ok and note("caller's document unchanged", tx(doc) == before)
ok = ok and note('private copy (no container shared with the input)', v.cast_data is not doc and disjoint_containers(v.cast_data, doc))
valid, tested, fails = ref_rule(PT, CT, exp)
ok = ok and same('verdict judged on the cast values', (v.is_valid, v.num_failures, v.num_rules_tested), (valid, len(fails), 1 if tested else 0))
t = rule.test(doc)
ok = ok and same('Rule.test data', tx(t.data.get_original()), tx(exp)) and same('Rule.test verdict', (t.is_valid, t.num_failures), (valid, len(fails)))
ok = ok and note("caller's document unchanged by Rule.test", tx(doc) == before)
return ok
"""
    return mk_case(f"c15.cast.{sid}.{kind}.{tag}", params, body, pre=[f"BU({L}, {pn})"], stubs=["sym_repr"])


def cases(ctx):
    L = 2 if ctx.quick else 3
    out = []
    n = 0
    for sid, pt, doc in SHAPES:
        if ctx.quick:
            for kind in ("bool", "int"):
                s1, s2 = POOL[n % len(POOL)], POOL[(n * 5 + 3) % len(POOL)]
                out.append(cast_case(sid, pt, doc, kind, s1, s2, L, f"p{n % len(POOL)}"))
                n += 1
        else:
            for kind in ("bool", "int"):
                for a, s1 in enumerate(POOL):
                    for b, s2 in enumerate(POOL):
                        if (a * len(POOL) + b + n) % 6 == ctx.seed % 6 or a == b:
                            out.append(cast_case(sid, pt, doc, kind, s1, s2, L, f"p{a}_{b}"))
                n += 1
    # two cast rules over the SAME nodes: the later rule casts nothing itself but must still be judged on the shared copy
    for n, (s1, s2) in enumerate([("'1'", "'3'"), ("'0'", "'x'"), ("'007'", "'true'")]):
        body = f"""
doc = {{'opts': {{'debug': {s1}, 'level': {s2}, 'n': u1}}, 'deep': {{'more': [{s2}, [u1]]}}}}
before = tx(doc)
r1 = Rule(('opts', MapValue()), Value.is_instance(int, str, bool) | Value.equal_to(None), cast={{str: int}})
r2 = Rule(('opts', 'debug'), Value.dtype.in_([bool, int]), cast={{str: valida.casting.cast_string_to_bool}})
r3 = Rule(('opts', 'level'), Value.greater_than(t), cast={{str: valida.casting.cast_string_to_bool}})
v = Schema([r1, r2, r3]).validate(doc)
exp = ref_cast([((('prim', 'opts'), ('map', NULL)), 'int'), ((('prim', 'opts'), ('prim', 'debug')), 'bool'), ((('prim', 'opts'), ('prim', 'level')), 'bool')], doc)
ok = same('cast_data', tx(v.cast_data), tx(exp))
e2 = ref_rule((('prim', 'opts'), ('prim', 'debug')), leaf('value', 'dtype', 'in_', [bool, int]), exp)
e3 = ref_rule((('prim', 'opts'), ('prim', 'level')), V('greater_than', t), exp)
ok = ok and same('later rules judged on the shared cast copy', [(rt.is_valid, rt.num_failures) for rt in v.rule_tests[1:]], [(e2[0], len(e2[2])), (e3[0], len(e3[2]))])
ok = ok and note('failure values come from the copy', all(f.value is follow(v.cast_data, f.path) for rt in v.rule_tests for f in rt.failures))
ok = ok and note("caller's document unchanged", tx(doc) == before) and note('private copy', disjoint_containers(v.cast_data, doc))
return ok
"""
        out.append(mk_case(f"c15.cast.overlapping.{n}", [("u1", UN), ("t", "int")], body, pre=[f"BU({L}, u1, t)"], stubs=["sym_repr"]))
    # a schema extended with deeper cast rules after it was first used
    body = """
doc = {'flag': 'true', 'sub': {'n': '3', 'deep': {'m': '-2', 'k': u1}}}
before = tx(doc)
sch = Schema([Rule(('flag',), Value.equal_to(True), cast={str: valida.casting.cast_string_to_bool})])
v0 = sch.validate(doc)
ok = same('first validation', tx(v0.cast_data), tx({'flag': True, 'sub': {'n': '3', 'deep': {'m': '-2', 'k': u1}}}))
sch.add_schema(Schema([Rule(('n',), Value.greater_than(t), cast={str: int}), Rule(('deep', 'm'), Value.less_than(t), cast={str: int})]), DataPath('sub'))
v1 = sch.validate(doc)
ok = ok and same('after add_schema', tx(v1.cast_data), tx({'flag': True, 'sub': {'n': 3, 'deep': {'m': -2, 'k': u1}}}))
ok = ok and note("caller's document unchanged", tx(doc) == before) and note('private copy', disjoint_containers(v1.cast_data, doc))
return ok
"""
    out.append(mk_case("c15.cast.schema_extended", [("u1", UN), ("t", "int")], body, pre=[f"BU({L}, u1, t)"], stubs=["sym_repr"]))
    # two rules, disjoint regions, both casts; shared copy across the schema's rules
    for n, (s1, s2) in enumerate([("'true'", "'3'"), ("'x'", "'-2'"), ("'False'", "'1.5'"), ("'TRUE'", "' 7 '")]):
        body = f"""
P1 = (('prim', 'flags'), ('map', NULL))
P2 = (('prim', 'nums'), ('list', NULL))
C1 = V('is_instance', bool)
C2 = V('greater_than', t)
doc = {{'flags': {{'a': {s1}, 1: u1, None: {s2}}}, 'nums': [{s2}, u1, {s1}, '3'], 'other': {s1}}}
before = tx(doc)
sch = Schema([Rule(build_path(P2), build_cond(C2), cast={{str: int}}), Rule(build_path(P1), build_cond(C1), cast={{str: valida.casting.cast_string_to_bool}})])
v = sch.validate(doc)
exp = ref_cast([(P1, 'bool'), (P2, 'int')], doc)
ok = same('cast_data', tx(v.cast_data), tx(exp))
ok = ok and note("caller's document unchanged", tx(doc) == before)
r1 = ref_rule(P1, C1, exp)
r2 = ref_rule(P2, C2, exp)
ok = ok and same('verdicts judged on the cast values', (v.is_valid, v.num_failures), (r1[0] and r2[0], len(r1[2]) + len(r2[2])))
return ok
"""
        out.append(mk_case(f"c15.cast.two_rules.{n}", [("u1", UN), ("t", "int")], body, pre=[f"BU({L}, u1, t)"], stubs=["sym_repr"]))
    # a later rule's path carries a value condition on a string that an earlier rule casts: the nodes to cast are the ones the
    # path selects in the document (as given), whatever other rules have already written to the shared copy - in both orders
    for order in ("flags_first", "retries_first"):
        body = f"""
P1 = (('prim', 'steps'), ('list', NULL), ('prim', 'enabled'))
P2 = (('prim', 'steps'), ('list', V('items_contain', enabled='true')), ('prim', 'retries'))
doc = {{'steps': [{{'enabled': 'true', 'retries': '3'}}, {{'enabled': 'false', 'retries': '5'}}, {{'enabled': 'true', 'retries': 'many'}}, {{'enabled': u1, 'retries': '7'}}]}}
before = tx(doc)
R1 = Rule(build_path(P1), Value.is_instance(bool), cast={{str: valida.casting.cast_string_to_bool}})
R2 = Rule(build_path(P2), Value.greater_than(t), cast={{str: int}})
v = Schema({'[R1, R2]' if order == 'flags_first' else '[R2, R1]'}).validate(doc)
exp = ref_cast([(P1, 'bool'), (P2, 'int')], doc)
ok = same('cast_data', tx(v.cast_data), tx(exp))
ok = ok and note("caller's document unchanged", tx(doc) == before) and note('private copy', disjoint_containers(v.cast_data, doc))
return ok
"""
        out.append(mk_case(f"c15.cast.selection_vs_other_casts.{order}", [("u1", UN), ("t", "int")], body, pre=[f"BU({L}, u1, t)"], stubs=["sym_repr"]))
    # strings that are instances of a str subclass (as round-trip YAML loaders hand out quoted scalars) are strings
    body = """
class Quoted(str):
    pass
doc = {'a': Quoted('true'), 'b': [Quoted('False'), Quoted('maybe'), u1, 'TRUE'], None: Quoted('3'), 'n': {'k': Quoted('-2'), 'j': Quoted('x')}}
before = tx(doc)
PB1, PB2 = (('map', NULL),), (('prim', 'b'), ('list', NULL))
PI1, PI2 = (('map', NULL),), (('prim', 'n'), ('map', NULL))
vb = Schema([Rule(build_path(PB1), Value.truthy() | Value.falsy(), cast={str: valida.casting.cast_string_to_bool}),
             Rule(build_path(PB2), Value.is_instance(bool), cast={str: valida.casting.cast_string_to_bool})]).validate(doc)
ok = same('str -> bool cast data', tx(vb.cast_data), tx(ref_cast([(PB1, 'bool'), (PB2, 'bool')], doc)))
vi = Schema([Rule(build_path(PI1), Value.truthy() | Value.falsy(), cast={str: int}), Rule(build_path(PI2), Value.less_than(t), cast={str: int})]).validate(doc)
ok = ok and same('str -> int cast data', tx(vi.cast_data), tx(ref_cast([(PI1, 'int'), (PI2, 'int')], doc)))
t1 = Rule(build_path(PB2), Value.is_instance(bool), cast={str: valida.casting.cast_string_to_bool}).test(doc)
ok = ok and same('Rule.test verdict on the cast values', (t1.is_valid, t1.num_failures), (False, 1 + (0 if type(u1) is bool else 1)))
ok = ok and note("caller's document unchanged", tx(doc) == before)
return ok
"""
    out.append(mk_case("c15.cast.str_subclass", [("u1", UN), ("t", "int")], body, pre=[f"BU({L}, u1, t)"], stubs=["sym_repr"]))
    # nested containers that are dict / list subclasses: the cast data is the document with the replacements, type-exactly
    # (subclass containers stay what they are), and shares no container with the caller's document
    body = """
import collections, copy
class Seq(list):
    pass
doc = {'opts': collections.OrderedDict([('verbose', 'true'), ('level', '3'), ('name', 'x')]), 'tags': Seq(['1', 'two', '3', u1]),
       'dd': collections.defaultdict(list, {'k': ['7', u1]}), 'plain': {'k': ['7']}}
before = tx(doc)
rules = [Rule(('opts', 'verbose'), Value.equal_to(True), cast={str: valida.casting.cast_string_to_bool}),
         Rule(('opts', 'level'), Value.greater_than(t), cast={str: int}),
         Rule(('tags', ListValue()), Value.is_instance(int, str), cast={str: int}),
         Rule(('dd', 'k', 0), Value.equal_to(7), cast={str: int})]
exp = copy.deepcopy(doc)
exp['opts']['verbose'] = True
exp['opts']['level'] = 3
exp['tags'][0] = 1
exp['tags'][2] = 3
exp['dd']['k'][0] = 7
v = Schema(rules).validate(doc)
ok = same('cast data, type-exactly (container types included)', tx(v.cast_data), tx(exp))
ok = ok and note('private copy', disjoint_containers(v.cast_data, doc)) and note("caller's document unchanged", tx(doc) == before)
t1 = rules[2].test(doc)
exp1 = copy.deepcopy(doc)
exp1['tags'][0] = 1
exp1['tags'][2] = 3
ok = ok and same('Rule.test data, type-exactly', tx(t1.data.get_original()), tx(exp1))
return ok
"""
    out.append(mk_case("c15.cast.container_subclasses", [("u1", UN), ("t", "int")], body, pre=[f"BU({L}, u1, t)"], stubs=["sym_repr"]))
    return out
