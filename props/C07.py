"""C07 - validation never raises because of what the document contains."""
from engine.runner import mk_case
from engine import terms

U = "Union[int, bool, None, str]"
UN = "Union[int, bool, None]"      # no str: a symbolic str datum under `%` is formatted character by character

# well-typed, non-degenerate arguments for every callable (symbolic where that is cheap)
ARGS = {
    "equal_to": ("a", [("a", U)]), "not_equal_to": ("a", [("a", U)]),
    "less_than": ("t", [("t", "int")]), "greater_than": ("t", [("t", "int")]),
    "less_than_or_equal_to": ("t", [("t", "int")]), "greater_than_or_equal_to": ("t", [("t", "int")]),
    "in_": ("[t, None]", [("t", "int")]), "not_in": ("[t, 'x', None]", [("t", "int")]),
    "in_range": ("lo, hi", [("lo", "int"), ("hi", "int")]), "not_in_range": ("lo, hi", [("lo", "int"), ("hi", "int")]),
    "equal_to_approx": ("v, tol", [("v", "int"), ("tol", "int")]),
    "factor_of": ("6", []), "has_factor": ("3", []),
    "truthy": ("", []), "falsy": ("", []), "null": ("", []),
    "is_instance": ("int, str", []),
    "keys_contain": ("'k'", []), "keys_contain_any_of": ("'k', 'j'", []), "keys_contain_all_of": ("'k', 'j'", []),
    "keys_contain_N_of": ("n, ['k', 'j']", [("n", "int")]), "keys_contain_at_least_N_of": ("n, ['k', 'j']", [("n", "int")]),
    "keys_contain_at_most_N_of": ("n, ['k', 'j']", [("n", "int")]), "keys_contain_one_of": ("'k', 'j'", []),
    "keys_contain_at_least_one_of": ("['k', 'j']", []), "keys_contain_at_most_one_of": ("['k', 'j']", []),
    "keys_equal_to": ("'k'", []), "keys_is_instance": ("str", []), "items_contain": ("k=a", [("a", U)]),
    "allowed_keys": ("'k', 'j'", []), "required_keys": ("'k'", []), "forbidden_keys": ("'z'", []),
}
EXTRA_PRE = {"in_range": "0 <= hi - lo <= 2", "not_in_range": "0 <= hi - lo <= 2"}
# leaves of every type: symbolic scalars, zeros, None, empty and nested containers, cast-looking strings
DOC_L = "[u1, u2, 0, '', [], {}, [u1, None], {'k': u2, 'j': 'true'}]"
DOC_M = "{'a': u1, 1: u2, None: 0, '': '', True: [], 'e': {}, 'n': [u1], 'd': {'k': u2, 'j': None}, 'z': 0}"
DOC_F = "[u1, 0.0, -1.5, 1e300, 2.0]"      # floats meet concrete arguments only


def BOUNDS(ctx):
    return {
        "schemas": "one rule per callable (all 32 on value; the 17 general ones under length and dtype) with well-typed, "
                   "non-degenerate arguments, over bare and conditioned fan-out paths and concrete paths; plus cast schemas "
                   "(str->bool, str->int, both) over keys of every type, list indices, fan-out, nested lists and the empty path",
        "documents": "8-item list / 9-item mapping with leaves of every type (two symbolic Union leaves, zeros, None, '', [], {}, "
                     "nested containers, cast-looking strings); cast strings are concrete pool entries: "
                     "'true','False','TRUE','3','-2','x','','1.5',' 7 '",
        "assertion": "Schema.validate / Rule.test return (no oracle); any escaping exception is a violation",
        "symbolic": "two document leaves (one Union-typed, one int; both occur at top level and nested), condition arguments/thresholds",
        "outside": "symbolic strings as the datum of factor_of/has_factor (%-formatting of a symbolic str is enumerated per string: "
                   "concrete format-like strings are used instead); floats with symbolic thresholds; cast parsing of symbolic strings",
    }


def cond_src(kind, pre, name, argsrc):
    cls = {None: "Value", "length": "Value.length", "dtype": "Value.dtype"}[pre]
    return f"{cls}.{name}({argsrc})"


def callable_case(pre, name, docid, L):
    argsrc, params = ARGS[name]
    params = list(params)
    if pre == "dtype":
        # arguments of the kind the dtype conditions expect: types
        argsrc, params = {"equal_to": ("int", []), "not_equal_to": ("str", []), "in_": ("[int, str]", []), "not_in": ("[bool, dict]", []),
                          "is_instance": ("type", [])}.get(name, (argsrc, params))
    doc = {"l": DOC_L, "m": DOC_M, "f": DOC_F}[docid]
    leaf_t = U
    if name in ("factor_of", "has_factor") and pre is None:
        leaf_t = UN
        doc = doc.replace("'j': 'true'", "'j': 'true', 1: '%d', 2: '%', 3: '%s%s'")
    if docid == "f":
        # concrete arguments against float data
        argsrc = {"less_than": "2", "greater_than": "2", "less_than_or_equal_to": "2", "greater_than_or_equal_to": "2",
                  "in_range": "0, 5", "not_in_range": "0, 5", "equal_to_approx": "2, 1", "equal_to": "2", "not_equal_to": "2",
                  "in_": "[2, 1.5]", "not_in": "[2, 1.5]"}.get(name, argsrc)
        params = []
        leaf_t = "Optional[str]" if name not in ("factor_of", "has_factor") else "Optional[bool]"
    params = params + [("u1", leaf_t), ("u2", "int" if docid != "f" else leaf_t)]
    pn = ", ".join(p[0] for p in params)
    pre_l = [f"BU({L}, {pn})"]
    if name in EXTRA_PRE and docid != "f":
        pre_l.append(EXTRA_PRE[name])
    part = "ListValue()" if doc.startswith("[") else "MapValue()"
    body = f"""
doc = {doc}
cond = {cond_src('value', pre, name, argsrc)}
r1 = Rule(({part},), cond)
r2 = Rule(({part}, MapOrListValue()), cond)
v = Schema([r1, r2]).validate(doc)
return isinstance(v.is_valid, bool) and isinstance(v.num_failures, int)
"""
    return mk_case(f"c07.callable.{pre or 'value'}.{name}.{docid}", params, body, pre=pre_l, stubs=["sym_repr"])


CAST_POOL = ["'true'", "'False'", "'TRUE'", "'3'", "'-2'", "'x'", "''", "'1.5'", "' 7 '", "'inf'", "'-Infinity'", "'1e999'", "'nan'", "'3.0'", "'1e3'", "'0x1F'", "'١٢'"]
CASTS = {
    "bool": "{str: valida.casting.cast_string_to_bool}",
    "int": "{str: int}",
}


def cast_case(cid, path_src, doc_src, cast, cond_src_, L, params=None):
    params = list(params or []) + [("u1", UN), ("t", "int")]
    pn = ", ".join(p[0] for p in params)
    body = f"""
doc = {doc_src}
rule = Rule({path_src}, {cond_src_}, cast={CASTS[cast]})
t = rule.test(doc)
v = Schema([rule, Rule((), Value.truthy())]).validate(doc)
return isinstance(t.is_valid, bool) and isinstance(v.is_valid, bool) and v.cast_data is not None
"""
    return mk_case(f"c07.cast.{cid}", params, body, pre=[f"BU({L}, {pn})"], stubs=["sym_repr"])


def cases(ctx):
    L = 2 if ctx.quick else 3
    out = []
    for kind, pre, name in terms.leaf_kinds():
        if kind != "value":
            continue
        out.append(callable_case(pre, name, "l", L))
        if not ctx.quick:
            out.append(callable_case(pre, name, "m", L))
        if pre is None and name in terms.GENERAL and (not ctx.quick or name in ("less_than", "in_range", "equal_to_approx", "factor_of", "has_factor", "in_")):
            out.append(callable_case(pre, name, "f", L))
    # casts: every path shape x cast strings (all pairs of pool entries over two castable positions in thorough)
    pool = CAST_POOL
    pairs = [(pool[i], pool[(i * 2 + 1) % len(pool)]) for i in range(len(pool))] if ctx.quick else [(a, b) for a in pool for b in pool]
    for n, (s1, s2) in enumerate(pairs):
        for cast in (["bool", "int"] if not ctx.quick else [("bool", "int")[n % 2]]):
            tag = f"{n}.{cast}"
            cond = "Value.equal_to(t)" if cast == "int" else "Value.equal_to(True)"
            out.append(cast_case(f"strkey.{tag}", "('a',)", f"{{'a': {s1}, 'b': {s2}, 'c': u1}}", cast, cond, L))
            out.append(cast_case(f"fanout.map.{tag}", "(MapValue(),)", f"{{'a': {s1}, 'b': {s2}, 'c': u1, 1: [], None: {{}}}}", cast, cond, L))
            out.append(cast_case(f"fanout.list.{tag}", "(ListValue(),)", f"[{s1}, u1, {s2}, [], None]", cast, cond, L))
    # the same casts declared in SPEC form (type names: the parser may resolve them to other cast functions than the API form's),
    # through Rule.from_spec, over every pool string
    for n, s1 in enumerate(pool + ["'-2e400'", "'1E309'", "'true\\n'"]):
        s2 = pool[(n * 3 + 2) % len(pool)]
        for cast, spec_cast in (("int", "{'str': 'int'}"), ("bool", "{'str': 'bool'}")) if (not ctx.quick or n % 2 == 0) else ((("int", "{'str': 'int'}"),) if n % 4 == 1 else (("bool", "{'str': 'bool'}"),)):
            body = f"""
doc = {{'a': {s1}, 'l': [{s2}, u1, {s1}, [{s1}]], 'c': u1}}
r1 = Rule.from_spec({{'path': ['a'], 'condition': {{'value.{'equal_to' if cast == 'int' else 'is_instance'}': {'t' if cast == 'int' else "['bool', 'str']"}}}, 'cast': {spec_cast}}})
sch = Schema([Rule.from_spec({{'path': ['l', {{'type': 'list_value'}}], 'condition': {{'value.not_equal_to': t}}, 'cast': {spec_cast}}}), r1])
t1 = r1.test(doc)
v = sch.validate(doc)
return isinstance(t1.is_valid, bool) and isinstance(v.is_valid, bool) and v.cast_data is not None
"""
            out.append(mk_case(f"c07.cast.specform.{n}.{cast}", [("u1", UN), ("t", "int")], body, pre=[f"BU({L}, u1, t)"], stubs=["sym_repr"]))
    s1, s2 = "'true'", "'x'"
    for cast in ("bool", "int"):
        cond = "Value.equal_to(t)" if cast == "int" else "Value.equal_to(True)"
        out.append(cast_case(f"intkey.{cast}", "(1,)", f"{{1: {s1}, 2: {s2}, 'c': u1}}", cast, cond, L))
        out.append(cast_case(f"intkey.sym.{cast}", "(i,)", f"{{1: {s1}, 2: '3', 'c': u1}}", cast, cond, L, [("i", "int")]))
        out.append(cast_case(f"listindex.{cast}", "('l', 0)", f"{{'l': ['3', {s2}, u1]}}", cast, cond, L))
        out.append(cast_case(f"listindex.sym.{cast}", "('l', i)", f"{{'l': ['3', {s2}, u1]}}", cast, cond, L, [("i", "int")]))
        out.append(cast_case(f"nonekey.{cast}", "(MapValue(),)", f"{{None: '3', True: {s1}, 1.5: {s2}, 'c': u1}}", cast, cond, L))
        out.append(cast_case(f"floatkey.{cast}", "(1.5,)", f"{{1.5: '3', 'c': u1}}", cast, cond, L))
        out.append(cast_case(f"emptypath.{cast}", "()", f"{{'a': '3', 'c': u1}}", cast, "Value.is_instance(dict)", L))
        out.append(cast_case(f"emptypath.list.{cast}", "()", f"['3', u1]", cast, "Value.is_instance(list)", L))
        out.append(cast_case(f"nested.{cast}", "(MapOrListValue(), MapOrListValue())", f"{{'a': ['3', {s2}], 'b': {{1: {s1}, None: '-2'}}, 'c': u1, 'd': [[u1]]}}", cast, cond, L))
        out.append(cast_case(f"missing.{cast}", "('zz', 'y')", f"{{'a': '3', 'c': u1}}", cast, cond, L))
        out.append(cast_case(f"scalar_midpath.{cast}", "('c', 'y')", f"{{'a': '3', 'c': u1}}", cast, cond, L))
    for cast in ("bool", "int"):
        cond = "Value.equal_to(t)" if cast == "int" else "Value.equal_to(True)"
        out.append(cast_case(f"fanout_then_key.{cast}", "(MapValue(), 'port')", "{'version': u1, 'e': {}, 'db': {'port': '5432', 'on': 'true'}, 'n': None, 'cache': {'port': 'x'}, 'l': ['3']}", cast, cond, L))
        out.append(cast_case(f"fanout_then_index.{cast}", "(MapOrListValue(), 0)", "{'version': u1, 's': '', 'db': ['5432', 'true'], 'e': [], 'cache': {0: 'true', 1: '3'}}", cast, cond, L))
        out.append(cast_case(f"list_fanout_then_key.{cast}", "(ListValue(), 'p')", "[u1, [], {'p': '3'}, None, {'p': 'true'}, 'x']", cast, cond, L))
    both = "{str: valida.casting.cast_string_to_bool, int: str}"
    body = f"""
doc = {{'a': 'true', 'b': 'x', 'c': u1, 1: '3', None: [u1, 'False']}}
rule = Rule((MapValue(),), Value.truthy(), cast={{bool: int, str: valida.casting.cast_string_to_bool}})
r2 = Rule((MapValue(key=Key.equal_to(None)), ListValue()), Value.falsy(), cast={{str: valida.casting.cast_string_to_bool}})
r3 = Rule((1,), Value.equal_to(t), cast={{str: int}})
v = Schema([rule, r2, r3]).validate(doc)
return isinstance(v.is_valid, bool)
"""
    out.append(mk_case("c07.cast.three_rules", [("u1", UN), ("t", "int")], body, pre=[f"BU({L}, u1, t)"], stubs=["sym_repr"]))
    # concrete cast paths whose prefix lands on a string (a string is not a list: nothing selected, nothing cast)
    for cast in ("bool", "int"):
        cond = "Value.equal_to(t)" if cast == "int" else "Value.equal_to(True)"
        out.append(cast_case(f"string_midpath.{cast}", "('ports', 0)", "{'ports': '8080', 'c': u1}", cast, cond, L))
        out.append(cast_case(f"string_midpath.sym.{cast}", "('ports', i)", "{'ports': '80', 'c': u1}", cast, cond, L, [("i", "int")]))
        out.append(cast_case(f"string_midpath.nested.{cast}", "('l', 1, 0)", "{'l': [u1, '7', ['3']], 'c': 'true'}", cast, cond, L))
        out.append(cast_case(f"string_midpath.root_list.{cast}", "(0, 0)", "['0', u1]", cast, cond, L))
    # conditions whose arguments are data paths with datum / multiplicity modifiers: the referenced node has whatever type
    # the document gives it (no len, no keys, several matches) - the items fail, validation returns
    for cid, cond in [
        ("length", "Value.equal_to(DataPath('names').length())"),
        ("length.spec", "ConditionLike.from_spec({'value.equal_to': {'path.length': ['names']}})"),
        ("map_keys", "Value.in_(DataPath('names').map_keys())"),
        ("map_values", "Value.in_(DataPath('opts').map_values())"),
        ("single", "Value.equal_to(DataPath(MapValue()).single())"),
        ("length.in_tree", "Value.is_instance(int) & (Value.less_than(DataPath('opts').length()) | Value.equal_to(DataPath('names', 0).length()))"),
        ("length.in_list", "Value.in_([DataPath('names').length(), DataPath('opts').map_keys(), 3])"),
        ("dtype.first", "Value.dtype.equal_to(DataPath('zz', ListValue()).dtype().first())"),
    ]:
        for did, doc in [("scalar", "{'names': u1, 'opts': [u1], 'x': 3, 'xs': [1, u1]}"), ("none", "{'names': None, 'opts': 1.5, 'x': u1, 'xs': []}"),
                         ("ok", "{'names': ['a', u1], 'opts': {'k': u1}, 'x': 2, 'xs': [2]}")]:
            body = f"""
doc = {doc}
cond = {cond}
rules = [Rule(('x',), cond), Rule(('xs', ListValue()), cond), Rule((MapValue(),), cond)]
good = True
for r in rules:
    good = good and isinstance(r.test(doc).is_valid, bool)
v = Schema(rules).validate(doc)
return good and isinstance(v.is_valid, bool) and isinstance(v.get_failures_string(), str)
"""
            out.append(mk_case(f"c07.patharg.{cid}.{did}", [("u1", UN)], body, pre=[f"BU({L}, u1)"], stubs=["sym_repr"]))
    # the same schema / rule objects validate a document, the caller edits the document in place (entries removed,
    # a branch replaced by a scalar, a list emptied), and they validate it again: still a result object
    for cid, doc, edits in [
        ("list_entry_removed", "{'jobs': [{'retries': '1'}, {'retries': 'x'}, {'retries': '2'}], 'c': u1}", ["doc['jobs'].pop()", "del doc['jobs'][0]['retries']"]),
        ("branch_to_scalar", "{'jobs': [{'retries': '1'}], 'opts': {'limits': {'n': '3'}}, 'c': u1}", ["doc['opts']['limits'] = 0", "doc['jobs'] = u1", "doc['opts'] = None"]),
        ("inner_list_truncated", "{'jobs': [{'retries': '1'}, {'retries': '7'}], 'xs': [['1'], ['2', u1]]}", ["doc['xs'][1].clear()", "doc['xs'].clear()", "doc['jobs'].clear()"]),
    ]:
        steps = "\n".join(f"{e}\nok = ok and check()" for e in edits)
        body = f"""
doc = {doc}
rules = [Rule(('jobs', ListValue(), 'retries'), Value.greater_than(t), cast={{str: int}}),
         Rule(('opts', 'limits', 'n'), Value.equal_to(t), cast={{str: int}}),
         Rule(('xs', ListValue(), ListValue()), Value.less_than(t), cast={{str: int}}),
         Rule(('jobs', 0, 'retries'), Value.equal_to(True), cast={{str: valida.casting.cast_string_to_bool}})]
sch = Schema(rules)
def check():
    v = sch.validate(doc)
    good = isinstance(v.is_valid, bool) and v.cast_data is not None
    for r in rules:
        good = good and isinstance(r.test(doc).is_valid, bool)
    return good
ok = check()
{steps}
return ok
"""
        out.append(mk_case(f"c07.cast.reuse.{cid}", [("u1", UN), ("t", "int")], body, pre=[f"BU({L}, u1, t)"], stubs=["sym_repr"]))
    # documents built from dict / list / str subclasses, with and without casts
    body = """
import collections
class Seq(list):
    pass
class Quoted(str):
    pass
doc = collections.OrderedDict([('a', collections.OrderedDict([('x', u1), ('flag', Quoted('true'))])), ('b', collections.defaultdict(dict, {'k': {'n': Quoted('3')}})),
                               ('jobs', Seq([collections.OrderedDict(n='7'), {'n': Quoted('x')}, Seq([u1, '5'])])), ('c', Quoted(''))])
rules = [Rule((MapValue(), MapValue()), Value.truthy() | Value.less_than(t), cast={str: valida.casting.cast_string_to_bool}),
         Rule(('jobs', ListValue(), 'n'), Value.greater_than(t), cast={str: int}),
         Rule(('b', 'k', 'n'), Value.equal_to(t), cast={str: int}),
         Rule((MapOrListValue(), MapOrListValue(), MapOrListValue()), Value.length.less_than(t) | Value.is_instance(int)),
         Rule(('jobs', 2, ListValue()), Value.in_range(t, 9), cast={str: int}),
         Rule((), Value.keys_contain('a'))]
good = True
for r in rules:
    good = good and isinstance(r.test(doc).is_valid, bool)
v = Schema(rules).validate(doc)
return good and isinstance(v.is_valid, bool) and v.cast_data is not None and isinstance(v.get_failures_string(), str)
"""
    out.append(mk_case("c07.subclass_docs", [("u1", UN), ("t", "int")], body, pre=[f"BU({L}, u1, t) and 0 <= 9 - t <= 3"], stubs=["sym_repr"]))
    return out
