"""C06 - schema verdict is the order-independent conjunction of its rules' verdicts."""
import itertools

from engine.runner import mk_case
from props.C03 import DOCS

U = "Union[int, bool, None, str]"

RULES = {
    "ab_gt": ("(('prim', 'a'), ('prim', 'b'))", "V('greater_than', t1)", [("t1", "int")]),
    "ab_str": ("(('prim', 'a'), ('prim', 'b'))", "V('is_instance', str)", []),
    "M_dict": ("(('map', NULL),)", "V('is_instance', dict)", []),
    "M_truthy": ("(('map', NULL),)", "V('truthy')", []),
    "lL_eq": ("(('prim', 'l'), ('list', NULL))", "V('equal_to', e1)", [("e1", "int")]),
    "root_keys": ("()", "V('keys_contain', 'a')", []),
    "aci": ("(('prim', 'a'), ('prim', 'c'), ('prim', i))", "V('less_than', t2)", [("i", "int"), ("t2", "int")]),
    "X_len": ("(('mol', NULL, NULL, NULL),)", "leaf('value', 'length', 'greater_than', t2)", [("t2", "int")]),
    "zz": ("(('prim', 'zz'), ('prim', 0))", "V('falsy')", []),       # never exists: untested
    "acL_gt": ("(('prim', 'a'), ('prim', 'c'), ('list', NULL))", "V('greater_than', t1)", [("t1", "int")]),
    "L_x": ("(('list', NULL),)", "V('truthy')", []),                # on a mapping root: selects nothing
    "l1f": ("(('prim', 'l'), ('prim', 1.0))", "V('falsy')", []),     # a float part never matches a list index
    "l1i": ("(('prim', 'l'), ('prim', 1))", "V('is_instance', str)", []),
    "l1ib": ("(('prim', 'l'), ('prim', 1), ('prim', 'b'))", "V('greater_than', t1)", [("t1", "int")]),
    "l0f": ("(('prim', 'l'), ('prim', 0.0))", "V('truthy')", []),
    "l0i": ("(('prim', 'l'), ('prim', 0))", "V('equal_to', e1)", [("e1", "int")]),
    # look-alike parts: a str part that renders like an int / None key of the document ('1' vs 1): one path is
    # absent, its look-alike exists
    "k1s": ("(('prim', '1'),)", "V('falsy')", []),
    "k1i": ("(('prim', 1),)", "V('greater_than', t1)", [("t1", "int")]),
    "ls1": ("(('prim', 'l'), ('prim', '1'))", "V('falsy')", []),
    # fails at sibling keys of mixed types (str, int, None) at once
    "M_list": ("(('map', NULL),)", "V('is_instance', list)", []),
    # rules that compare equal (Rule.__eq__: commuted operands) but are separate entries of the rule list
    "ab_and": ("(('prim', 'a'), ('prim', 'b'))", "('and', V('greater_than', t1), V('is_instance', int))", [("t1", "int")]),
    "ab_and_c": ("(('prim', 'a'), ('prim', 'b'))", "('and', V('is_instance', int), V('greater_than', t1))", [("t1", "int")]),
}


def BOUNDS(ctx):
    return {
        "schemas": "cast-free, 0-%d rules from the rule pool in props/C06.py (paths of length 0-3 incl. ties, never-existing paths, "
                   "fan-out paths), EVERY permutation of the rule list built and validated inside one harness run" % (3 if ctx.quick else 4),
        "documents": "C03's mapping-root skeleton (and list-root in thorough); leaves u1 Union, u2/u3 int",
        "report text": "get_failures_string() is a str and contains repr(path) of every failing path (paths have concrete keys); "
                       "the text rendered for a symbolic leaf value is a constant (engine-side sym_repr stub)",
        "outside": "frac_rules_tested of a 0-rule schema (division by zero; the statement does not speak about the fraction); "
                   "wording of the report",
    }


def schema_case(names, docid, L):
    params, seen = [], set()
    for n in names:
        for q in RULES[n][2]:
            if q[0] not in seen:
                seen.add(q[0])
                params.append(q)
    # (schemas with three or more symbolic rule arguments: every permutation runs in one harness; the leaf u1 is then an int)
    params += [("u1", U if len(params) < 3 else "int"), ("u2", "int"), ("u3", "int")]
    pn = ", ".join(p[0] for p in params)
    terms = ", ".join(f"({RULES[n][0]}, {RULES[n][1]})" for n in names)
    body = f"""
import itertools
TERMS = [{terms}]
doc = {DOCS[docid]}
n = len(TERMS)
refs = [ref_rule(pt, ct, doc) for pt, ct in TERMS]
exp_valid = all(r[0] for r in refs)
exp_fail = sum(len(r[2]) for r in refs)
exp_tested = sum(1 for r in refs if r[1])
exp_pairs = sorted((i, tx(cp)) for i in range(n) for _, cp in refs[i][2])
ok = True
for perm in itertools.permutations(range(n)):
    rules = [Rule(build_path(TERMS[i][0]), build_cond(TERMS[i][1])) for i in perm]
    sch = Schema(rules)
    # shortest path first, ties in the given order
    exp_order = sorted(range(n), key=lambda k: len(TERMS[perm[k]][0]))
    ok = ok and note('rules sorted shortest path first, ties in given order', len(sch.rules) == n and all(sch.rules[j] is rules[exp_order[j]] for j in range(n)))
    v = sch.validate(doc)
    ok = ok and same('is_valid', v.is_valid, exp_valid)
    ok = ok and same('num_failures', v.num_failures, exp_fail)
    ok = ok and same('num_rules_tested', v.num_rules_tested, exp_tested)
    ok = ok and note('one rule test per rule', len(v.rule_tests) == n)
    if n:
        ok = ok and same('frac_rules_tested', v.frac_rules_tested, exp_tested / n)
    orig = {{id(rules[k]): perm[k] for k in range(n)}}
    pairs = sorted((orig[id(rt.rule)], tx(tuple(f.path))) for rt in v.rule_tests for f in rt.failures)
    ok = ok and same('set of (rule, failing path)', pairs, exp_pairs)
    s = v.get_failures_string()
    ok = ok and note('failure report is a string', isinstance(s, str))
    if ok and not exp_valid:
        for rt in v.rule_tests:
            for f in rt.failures:
                ok = ok and note('report names every failing path', repr(f.path) in s)
return ok
"""
    return mk_case(f"c06.schema.{'+'.join(names) or 'empty'}.{docid}", params, body, pre=[f"BU({L}, {pn})"], stubs=["sym_repr"],
                   budget=(720 if len(names) >= 4 else None))   # 24 permutations validated per path


QUICK = [
    [], ["M_dict"], ["ab_gt"], ["zz"], ["ab_gt", "M_dict"], ["ab_gt", "lL_eq"], ["ab_gt", "ab_str"], ["root_keys", "aci"],
    ["ab_gt", "M_dict", "lL_eq"], ["root_keys", "aci", "ab_str"], ["lL_eq", "ab_gt", "zz"], ["X_len", "root_keys"],
    ["acL_gt", "ab_str", "L_x"], ["M_truthy", "X_len"], ["M_dict", "ab_gt", "zz"], ["zz", "L_x"], ["aci", "acL_gt"],
    ["l1f", "l1i"], ["l1f", "l1ib", "zz"], ["l0f", "l0i", "l1i"],
    ["k1s", "k1i"], ["k1s", "zz", "k1i"], ["ls1", "l1i", "l1ib"], ["M_list"], ["M_list", "k1i"],
    # the same definition listed more than once (separately built equal rules; commuted operands): every entry is applied and counted
    ["ab_gt", "ab_gt"], ["M_list", "ab_gt", "M_list"], ["ab_and", "ab_and_c"], ["ab_and_c", "zz", "ab_and"], ["zz", "zz"],
]


def reuse_case(cid, first_doc, second_doc, edit, L):
    """the same Schema object (and its rule objects) validated twice: the second verdict is the reference's"""
    body = f"""
TERMS = [((('prim', 'a'),), leaf('value', 'dtype', 'equal_to', int)), ((('prim', 'b'), ('prim', 'c')), V('is_instance', bool)),
         ((('prim', 'xs'), ('list', NULL)), leaf('value', 'dtype', 'in_', [int, str]))]
rules = [Rule(build_path(pt), build_cond(ct)) for pt, ct in TERMS]
sch = Schema(rules)
def expected(doc):
    refs = [ref_rule(pt, ct, doc) for pt, ct in TERMS]
    return (all(r[0] for r in refs), sum(len(r[2]) for r in refs), sum(1 for r in refs if r[1]), sorted(tx(cp) for r in refs for _, cp in r[2]))
def observed(v):
    return (v.is_valid, v.num_failures, v.num_rules_tested, sorted(tx(tuple(f.path)) for rt in v.rule_tests for f in rt.failures))
d1 = {first_doc}
v1 = sch.validate(d1)
o1, s1 = observed(v1), v1.get_failures_string()
ok = same('first validation', o1, expected(d1))
{edit}
d2 = {second_doc}
v2 = sch.validate(d2)
o2 = observed(v2)
ok = ok and same('second validation with the same schema object', o2, expected(d2))
ok = ok and same('the first result, read again after the second validation', observed(v1), o1)
ok = ok and note('the first report, read again', v1.get_failures_string() == s1)
ok = ok and same('... and with the same rule objects in another schema, another order', observed(Schema(list(reversed(rules))).validate(d2)), expected(d2))
ok = ok and same('first document again', observed(sch.validate({first_doc})), expected({first_doc}))
ok = ok and same('the second result, read again after the third validation', observed(v2), o2)
return ok
"""
    return mk_case(f"c06.reuse.{cid}", [("u1", "Union[int, bool, None]"), ("u2", "int")], body, pre=[f"BU({L}, u1, u2)"], stubs=["sym_repr"])


def cases(ctx):
    L = 2 if ctx.quick else 3
    out = []
    out.append(reuse_case("type_twins", "{'a': 1, 'b': {'c': True}, 'xs': [1, u2, 0]}", "{'a': True, 'b': {'c': 1}, 'xs': [1.0, u2, False]}", "", L))
    out.append(reuse_case("type_twins.rev", "{'a': True, 'b': {'c': 0}, 'xs': [u1, 2.0]}", "{'a': 1.0, 'b': {'c': False}, 'xs': [u1, 2]}", "", L))
    out.append(reuse_case("edited_in_place", "{'a': 1, 'b': {'c': True}, 'xs': [u1, 2]}", "d1", "d1['b']['c'] = u2\nd1['xs'].append(None)", L))
    out.append(reuse_case("removed_in_place", "{'a': u1, 'b': {'c': 0}, 'xs': [1, 'x']}", "d1", "del d1['b']['c']\nd1['xs'][0] = 1.5", L))
    for names in QUICK:
        out.append(schema_case(names, "dm", L))
    # the very same Rule object listed twice (and once more through add_schema): two entries, two rule tests, failures counted twice
    body = """
r1 = Rule(('a', 'b'), Value.greater_than(t1))
r2 = Rule((MapValue(),), Value.is_instance(dict))
doc = {'a': {'b': u1, 'c': [u2, 0]}, 'l': [u1], 1: u2}
TERMS = {id(r1): ((('prim', 'a'), ('prim', 'b')), V('greater_than', t1)), id(r2): ((('map', NULL),), V('is_instance', dict))}
ok = True
for rules in ([r1, r1], [r2, r1, r2], [r1, r2, r1, r1]):
    sch = Schema(list(rules))
    refs = [ref_rule(*TERMS[id(r)], doc) for r in rules]
    v = sch.validate(doc)
    ok = ok and note('every listed entry is a rule of the schema', len(sch.rules) == len(rules) and len(v.rule_tests) == len(rules))
    ok = ok and same('aggregates', (v.is_valid, v.num_failures, v.num_rules_tested), (all(r[0] for r in refs), sum(len(r[2]) for r in refs), sum(1 for r in refs if r[1])))
    ok = ok and isinstance(v.get_failures_string(), str)
return ok
"""
    out.append(mk_case("c06.duplicates.same_object", [("t1", "int"), ("u1", U), ("u2", "int")], body, pre=[f"BU({L}, t1, u1, u2)"], stubs=["sym_repr"]))
    if not ctx.quick:
        for names in QUICK[1:]:
            out.append(schema_case(names, "dl", L))
        for names in [["ab_gt", "M_dict", "lL_eq", "root_keys"], ["aci", "acL_gt", "ab_str", "zz"], ["M_truthy", "X_len", "lL_eq", "ab_gt"]]:
            out.append(schema_case(names, "dm", L))
        names = list(RULES)
        for k, combo in enumerate(itertools.combinations(names, 3)):
            if k % 7 == ctx.seed % 7:
                out.append(schema_case(list(combo), "dm", L))
    return out
