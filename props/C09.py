"""C09 - condition specs mean exactly what the equivalent Python DSL expression means."""
from engine.runner import mk_case
from engine import terms

U = "Union[int, bool, None, str]"
POOL = "('k', 'j', 'z')"

# per callable: [(shape id, spec value source, DSL call arguments source, params, pres)]
def shapes(name, dom, L):
    a_u = [("a", U)]
    ints = lambda *n: [(x, "int") for x in n]
    k1 = [("k1", "str")]
    pk = [f"k1 in {POOL}"]
    if dom == "type":
        if name in ("equal_to", "not_equal_to", "less_than", "greater_than", "less_than_or_equal_to", "greater_than_or_equal_to"):
            return [("name", "'int'", "int", [], []), ("type", "str", "str", [], []), ("upper", "'DICT'", "dict", [], []),
                    ("map", "'map'", "dict", [], []), ("mixed", "'Bool'", "bool", [], []), ("float", "'float'", "float", [], []),
                    ("list", "'list'", "list", [], [])]
        if name in ("in_", "not_in"):
            return [("names", "['int', 'str']", "[int, str]", [], []), ("types", "[bool, list]", "[bool, list]", [], []),
                    ("mixed", "['MAP', float]", "[dict, float]", [], [])]
        if name in ("truthy", "falsy", "null"):
            return [("none", "None", "", [], [])]
        # in_range / equal_to_approx / factor_of / has_factor / is_instance under dtype take non-type arguments
        if name in ("in_range", "not_in_range"):
            return [("list", "[lo, hi]", "lo, hi", ints("lo", "hi"), ["I64(lo, hi) and 0 <= hi - lo <= 2"])]
        if name == "equal_to_approx":
            return [("list", "[v, tol]", "v, tol", ints("v", "tol"), ["I64(v, tol)"])]
        if name in ("factor_of", "has_factor"):
            return [("scalar", "v", "v", ints("v"), ["I64(v)"])]
        if name == "is_instance":
            return [("types", "[type]", "type", [], [])]
    if name in ("equal_to", "not_equal_to"):
        return [("scalar", "a", "a", a_u, [f"BU({L}, a)"]), ("list", "[a, 1]", "[a, 1]", a_u, [f"BU({L}, a)"]),
                ("none", "None", "None", [], [])] if dom == "raw" else [("scalar", "a", "a", ints("a"), ["I64(a)"])]
    if name in ("less_than", "greater_than", "less_than_or_equal_to", "greater_than_or_equal_to"):
        return [("scalar", "a", "a", ints("a"), ["I64(a)"]), ("str", "s", "s", [("s", "str")], [f"len(s) <= {L}"])]
    if name in ("in_", "not_in"):
        return [("list", "[a, 1]", "[a, 1]", ints("a"), ["I64(a)"]), ("str", "s", "s", [("s", "str")], [f"len(s) <= {L}"])]
    if name in ("in_range", "not_in_range"):
        return [("list", "[lo, hi]", "lo, hi", ints("lo", "hi"), ["I64(lo, hi) and hi - lo <= 3"]),
                ("map", "{'lower': lo, 'upper': hi}", "lower=lo, upper=hi", ints("lo", "hi"), ["I64(lo, hi) and hi - lo <= 3"]),
                ("tuple", "(lo, hi)", "lo, hi", ints("lo", "hi"), ["I64(lo, hi) and hi - lo <= 3"])]
    if name == "equal_to_approx":
        return [("list", "[v, tol]", "v, tol", ints("v", "tol"), ["I64(v, tol)"]),
                ("map", "{'value': v, 'tolerance': tol}", "value=v, tolerance=tol", ints("v", "tol"), ["I64(v, tol)"]),
                ("default_tol", "{'value': 3}", "3", [], [])]  # default tolerance is a float: concrete value
    if name in ("factor_of", "has_factor"):
        return [("scalar", "v", "v", ints("v"), ["I64(v)"])]
    if name in ("truthy", "falsy", "null"):
        return [("none", "None", "", [], [])]
    if name == "is_instance":
        return [("names", "['int', 'str']", "int, str", [], []), ("types", "[dict, bool]", "dict, bool", [], []),
                ("upper", "['INT', 'Map', 'List']", "int, dict, list", [], []), ("one", "['float']", "float", [], [])]
    if name == "keys_contain":
        return [("scalar", "k1", "k1", k1, pk), ("int", "1", "1", [], [])]
    if name in ("keys_contain_any_of", "keys_contain_all_of", "keys_contain_one_of", "keys_equal_to", "allowed_keys",
                "required_keys", "forbidden_keys"):
        return [("list", "[k1, 'j']", "k1, 'j'", k1, pk), ("one", "[k1]", "k1", k1, pk)]
    if name in ("keys_contain_N_of", "keys_contain_at_least_N_of", "keys_contain_at_most_N_of"):
        return [("list", "[n, [k1, 'j']]", "n, [k1, 'j']", ints("n") + k1, ["I64(n)"] + pk),
                ("map", "{'N': n, 'keys': [k1, 'j']}", "N=n, keys=[k1, 'j']", ints("n") + k1, ["I64(n)"] + pk)]
    if name in ("keys_contain_at_least_one_of", "keys_contain_at_most_one_of"):
        return [("keys", "[k1, 'j']", "[k1, 'j']", k1, pk)]
    if name == "keys_is_instance":
        return [("names", "['str']", "str", [], []), ("types", "[int, str]", "int, str", [], []), ("upper", "['STR', 'Int']", "str, int", [], [])]
    if name == "items_contain":
        return [("map", "{'k': a}", "k=a", a_u, [f"BU({L}, a)"]), ("map2", "{'k': a, 'j': 0}", "k=a, j=0", a_u, [f"BU({L}, a)"])]
    raise AssertionError(name)


def spellings(kind, pre, name):
    """spec key spellings: lower, UPPER, Capitalised per token, aliases."""
    pres = {None: [None], "length": ["length", "len"], "dtype": ["dtype", "type"]}[pre]
    names = [name] + [al for al, full in terms.ALIASES.items() if full == name] + (["in"] if name == "in_" else [])
    out = []
    for p in pres:
        for nm in names:
            toks = [kind] + ([p] if p else []) + [nm]
            out.append(".".join(toks))
    base = out[0]
    out.append(base.upper())
    out.append(".".join(t.capitalize() for t in base.split(".")))
    out.append(".".join(t.upper() if i % 2 == 0 else t for i, t in enumerate(base.split("."))))
    if len(out) > 4:
        out.append(out[-4].upper() if out[-4] != base else out[1].title())
    seen, res = set(), []
    for k in out:
        if k not in seen:
            seen.add(k)
            res.append(k)
    return res


DOCS = {
    "value": ("[u1, 0, 'a', [1], {'k': 0, 1: 2}]", [("u1", U)]),
    "key": ("{'a': u1, 2: 0, '': 1, None: 2}", [("u1", U)]),
    "index": ("[u1, 0, 'a']", [("u1", U)]),
}


def BOUNDS(ctx):
    return {
        "terms": "every (datum kind, pre-processor, callable) triple found on the live classes x argument shapes the signature admits "
                 "(scalar / list / tuple / mapping / None, type names vs type objects); and/or/xor lists nested to depth 2",
        "spellings (enumerated)": "lower case, UPPER CASE, Capitalised per token, alternating case, aliases type/dtype, len/length, "
                                  "in/in_, eq/lt/gt/lte/gte; quick = rotating subset (>= 2 per term), thorough = all listed; NOT all "
                                  "2^n mixed-case keys; and/or/xor keys in lower case (as the parser's error text documents)",
        "symbolic": "argument values, the probe document's leaf; keys arguments pooled over " + POOL,
        "assertion": "from_spec(spec) == DSL object, same class, and both filter identically on the probe document",
        "outside": "non-type arguments under the dtype pre-processor (open known finding C09-dtype-nontype-args)",
    }


def leaf_case(kind, pre, name, shape, key, L, known=None):
    sid, spec_val, dsl_args, params, pres = shape
    doc, dparams = DOCS[kind]
    if name in ("factor_of", "has_factor"):
        # no str items/keys: a str datum would be %-formatted with the symbolic argument (realises it)
        doc = {"value": "[u1, 0, 6, [1], {'k': 0, 1: 2}]", "key": "{3: u1, 2: 0, 0: 1, None: 2}", "index": "[u1, 0, 'a']"}[kind]
        dparams = [("u1", "Union[int, bool, None]")]
    if sid == "default_tol":
        dparams = [("u1", "Optional[str]")]   # the default tolerance is a float: no symbolic int or bool leaf against it (int/real mix stalls z3)
    params = list(params) + dparams
    cls = {("value", None): "Value", ("value", "length"): "Value.length", ("value", "dtype"): "Value.dtype", ("key", None): "Key",
           ("key", "length"): "Key.length", ("key", "dtype"): "Key.dtype", ("index", None): "Index"}[(kind, pre)]
    body = f"""
spec = {{{key!r}: {spec_val}}}
d = {cls}.{name}({dsl_args})
c = ConditionLike.from_spec(spec)
doc = {doc}
ok = note('parsed condition equals the DSL-built one', c == d and type(c) is type(d))
ok = ok and same('both filter identically', c.filter(doc).result, d.filter(doc).result)
return ok
"""
    return mk_case(f"c09.leaf.{kind}{'.' + pre if pre else ''}.{name}.{sid}.{key}", params, body,
                   pre=list(pres) + [f"BU({L}, u1)"], known=known, stubs=["sym_repr"])


def cases(ctx):
    L = 2 if ctx.quick else 3
    out = []
    n = 0
    nontype_open = ctx.open("C09-dtype-nontype-args")
    for kind, pre, name in terms.leaf_kinds():
        dom = {"length": "int", "dtype": "type", None: "raw"}[pre]
        if kind == "index":
            dom = "int"
        shs = shapes(name, dom, L)
        sps = spellings(kind, pre, name)
        known = None
        if pre == "dtype" and name in ("in_range", "not_in_range", "equal_to_approx", "factor_of", "has_factor", "is_instance"):
            known = "C09-dtype-nontype-args"
            if not ctx.quick or name == "in_range":
                out.append(leaf_case(kind, pre, name, shs[0], sps[0], L, known=known))
            continue
        if ctx.quick:
            # every term: canonical spelling with its first shape + one rotating (shape, spelling) pair
            out.append(leaf_case(kind, pre, name, shs[0], sps[0], L))
            sh = shs[(n + 1) % len(shs)]
            sp = sps[1 + n % (len(sps) - 1)]
            out.append(leaf_case(kind, pre, name, sh, sp, L))
            n += 1
        else:
            for sh in shs:
                for sp in sps:
                    out.append(leaf_case(kind, pre, name, sh, sp, L))
    # keyword mappings written in another key order than the DSL call (keyword arguments are unordered)
    for cid, spec, dsl, doc, params, pres in [
        ("items_contain", "{'value.items_contain': {'j': 0, 'k': a}}", "Value.items_contain(k=a, j=0)", "[{'k': u1, 'j': 0}, {'j': 0}, 0]", [("a", "int"), ("u1", "int")], [f"BU({L}, a, u1)"]),
        ("items_contain.three", "{'VALUE.Items_Contain': {'z': None, 'j': [a], 'k': a}}", "Value.items_contain(k=a, j=[a], z=None)", "[{'k': u1, 'j': [u1], 'z': None}, {}]", [("a", "int"), ("u1", "int")], [f"BU({L}, a, u1)"]),
        ("items_contain.key", "{'key.items_contain': {'j': 0, 'k': a}}", "Key.items_contain(k=a, j=0)", "{'a': u1, 1: 0}", [("a", "int"), ("u1", "int")], [f"BU({L}, a, u1)"]),
        ("items_contain.in_tree", "{'or': [{'value.items_contain': {'j': 0, 'k': a}}, {'value.falsy': None}]}", "Value.items_contain(k=a, j=0) | Value.falsy()", "[{'k': u1, 'j': 0}, 0, 1]", [("a", "int"), ("u1", "int")], [f"BU({L}, a, u1)"]),
        ("in_range", "{'value.in_range': {'upper': hi, 'lower': lo}}", "Value.in_range(lower=lo, upper=hi)", "[u1, 0, 'a']", [("lo", "int"), ("hi", "int"), ("u1", "int")], [f"BU({L}, lo, hi, u1) and hi - lo <= 3"]),
        ("approx", "{'value.equal_to_approx': {'tolerance': tol, 'value': v}}", "Value.equal_to_approx(value=v, tolerance=tol)", "[u1, 0, 'a']", [("v", "int"), ("tol", "int"), ("u1", "int")], [f"BU({L}, v, tol, u1)"]),
        ("N_of", "{'value.keys_contain_N_of': {'keys': ['k', 'j'], 'N': n}}", "Value.keys_contain_N_of(N=n, keys=['k', 'j'])", "[{'k': u1}, {'k': 0, 'j': 1}, 0]", [("n", "int"), ("u1", "int")], [f"BU({L}, n, u1)"]),
    ]:
        body = f"""
spec = {spec}
d = {dsl}
c = ConditionLike.from_spec(spec)
doc = {doc}
ok = note('parsed condition equals the DSL-built one', c == d and d == c and type(c) is type(d))
ok = ok and same('both filter identically', c.filter(doc).result, d.filter(doc).result)
return ok
"""
        out.append(mk_case(f"c09.kwargs_order.{cid}", params, body, pre=pres, stubs=["sym_repr"]))
    # a literal mapping argument whose only key is the callable's own parameter name is still the literal
    for cid, spec, dsl, doc in [
        ("equal_to", "{'value.equal_to': {'value': a}}", "Value.equal_to({'value': a})", "[{'value': u1}, u1, 5]"),
        ("EQ", "{'VALUE.EQ': {'value': a}}", "Value.equal_to({'value': a})", "[{'value': u1}, u1]"),
        ("not_equal_to", "{'value.not_equal_to': {'value': a}}", "Value.not_equal_to({'value': a})", "[{'value': u1}, u1]"),
        ("in", "{'value.in': {'value': a}}", "Value.in_({'value': a})", "['value', u1]"),
        ("not_in", "{'value.not_in': {'value': a}}", "Value.not_in({'value': a})", "['value', u1]"),
        ("keys_contain", "{'value.keys_contain': {'key': 'k'}}", "Value.keys_contain({'key': 'k'})", "[{'k': u1}, {'key': a}, 0]"),
        ("at_least_one_of", "{'value.keys_contain_at_least_one_of': {'keys': ['k']}}", "Value.keys_contain_at_least_one_of({'keys': ['k']})", "[{'k': u1}, {'keys': a}, 0]"),
        ("key.in", "{'key.in': {'value': a}}", "Key.in_({'value': a})", "{'value': u1, 0: a}"),
        ("len.equal_to", "{'value.length.equal_to': {'value': a}}", "Value.length.equal_to({'value': a})", "[[u1], 'ab', {'value': a}]"),
        ("gt.two_keys", "{'value.equal_to': {'value': a, 'tolerance': 1}}", "Value.equal_to({'value': a, 'tolerance': 1})", "[{'value': u1, 'tolerance': 1}, u1]"),
    ]:
        body = f"""
spec = {spec}
d = {dsl}
c = ConditionLike.from_spec(spec)
doc = {doc}
ok = note('parsed condition equals the DSL-built one', c == d and type(c) is type(d))
ok = ok and same('both filter identically', c.filter(doc).result, d.filter(doc).result)
return ok
"""
        out.append(mk_case(f"c09.param_named_literal.{cid}", [("a", "int"), ("u1", "int")], body, pre=[f"BU({L}, a, u1)"], stubs=["sym_repr"]))
    # data-path arguments written as specs (`{path[.modifier]...: [parts]}`): the root path (an EMPTY part list, with and without
    # modifiers), paths with parts and part specs; as the argument itself, as a list item, as a keyword / mapping value; judged through
    # a rule so that the argument is resolved against the document
    for cid, spec, dsl in [
        ("root.length", "{'value.equal_to': {'path.length': []}}", "Value.equal_to(DataPath().length())"),
        ("root.map_keys.in", "{'value.in': {'path.map_keys': []}}", "Value.in_(DataPath().map_keys())"),
        ("root.plain", "{'value.not_equal_to': {'path': []}}", "Value.not_equal_to(DataPath())"),
        ("root.tuple", "{'value.length.less_than': {'path.length': ()}}", "Value.length.less_than(DataPath().length())"),
        ("root.in_list", "{'value.in': [{'path.length': []}, a]}", "Value.in_([DataPath().length(), a])"),
        ("root.kw_value", "{'value.items_contain': {'n': {'path.length': []}}}", "Value.items_contain(n=DataPath().length())"),
        ("root.dtype", "{'value.dtype.equal_to': {'path.dtype': []}}", "Value.dtype.equal_to(DataPath().dtype())"),
        ("root.upper", "{'VALUE.EQUAL_TO': {'PATH.LENGTH': []}}", "Value.equal_to(DataPath().length())"),
        ("root.in_comb", "{'or': [{'value.equal_to': {'path.length': []}}, {'value.in': {'path.map_keys': []}}]}", "Value.equal_to(DataPath().length()) | Value.in_(DataPath().map_keys())"),
        ("parts", "{'value.less_than': {'path': ['lim']}}", "Value.less_than(DataPath('lim'))"),
        ("parts.dtype", "{'value.dtype.equal_to': {'path.dtype': ['lim']}}", "Value.dtype.equal_to(DataPath('lim').dtype())"),
        ("parts.partspec.first", "{'value.greater_than': {'path.first': ['xs', {'type': 'list_value'}]}}", "Value.greater_than(DataPath('xs', ListValue()).first())"),
        ("parts.in_list.intpart", "{'value.in': [{'path': ['xs', 1]}, {'path': ['lim']}]}", "Value.in_([DataPath('xs', 1), DataPath('lim')])"),
        ("absent", "{'value.equal_to': {'path': ['zz', 0]}}", "Value.equal_to(DataPath('zz', 0))"),
    ]:
        body = f"""
spec = {spec}
d = {dsl}
c = ConditionLike.from_spec(spec)
doc = {{'xs': [u1, 3, a, {{'n': 3}}, 'lim', int], 'lim': a, 'k': 0}}
ok = note('parsed condition equals the DSL-built one', c == d and d == c and type(c) is type(d))
ok = ok and same('both judge the nodes identically', summarize_test(Rule(('xs', ListValue()), c).test(doc)), summarize_test(Rule(('xs', ListValue()), d).test(doc)))
ok = ok and note('parsing again gives an equal condition', ConditionLike.from_spec(spec) == c)
return ok
"""
        out.append(mk_case(f"c09.patharg.{cid}", [("a", "int"), ("u1", U)], body, pre=[f"BU({L}, a, u1)"], stubs=["sym_repr"]))
    # un-escaped literal mappings whose single key merely begins with (or contains) 'path' are literals, not data paths
    for cid, spec, dsl, doc in [
        ("paths", "{'value.equal_to': {'paths': [a, 'b']}}", "Value.equal_to({'paths': [a, 'b']})", "[{'paths': [u1, 'b']}, u1]"),
        ("pathname.in_list", "{'value.in': [{'pathname': 'ab'}, a]}", "Value.in_([{'pathname': 'ab'}, a])", "[{'pathname': 'ab'}, u1]"),
        ("path_to.in_kwargs", "{'value.items_contain': {'cfg': {'path_to': [a]}}}", "Value.items_contain(cfg={'path_to': [a]})", "[{'cfg': {'path_to': [u1]}}, u1]"),
        ("PathList", "{'value.equal_to': {'PathList': ['x']}}", "Value.equal_to({'PathList': ['x']})", "[{'PathList': ['x']}, u1]"),
        ("mypath", "{'value.not_equal_to': {'mypath': [a]}}", "Value.not_equal_to({'mypath': [a]})", "[{'mypath': [u1]}, u1]"),
        ("path_dash", "{'value.equal_to': {'path-like': a}}", "Value.equal_to({'path-like': a})", "[{'path-like': u1}, u1]"),
    ]:
        body = f"""
spec = {spec}
d = {dsl}
c = ConditionLike.from_spec(spec)
doc = {doc}
ok = note('parsed condition equals the DSL-built one', c == d and type(c) is type(d))
ok = ok and same('both filter identically', c.filter(doc).result, d.filter(doc).result)
return ok
"""
        out.append(mk_case(f"c09.pathlike_literal.{cid}", [("a", "int"), ("u1", "int")], body, pre=[f"BU({L}, a, u1)"], stubs=["sym_repr"]))
    # escaped literal mappings (`\\path` keys): the escape is recognised on any key of the mapping, wherever it sits, as the
    # argument itself, as a list item and as a keyword value
    for cid, spec, dsl, doc in [
        ("second_key", "{'value.equal_to': {'key': a, BS + 'path': ['b']}}", "Value.equal_to({'key': a, 'path': ['b']})", "[{'key': u1, 'path': ['b']}, u1]"),
        ("first_key", "{'value.equal_to': {BS + 'path': ['b'], 'key': a}}", "Value.equal_to({'path': ['b'], 'key': a})", "[{'key': u1, 'path': ['b']}, u1]"),
        ("in_list.second_key", "{'value.in': [{'name': a, 'file' + BS + 'path': 'x'}, 3]}", "Value.in_([{'name': a, 'filepath': 'x'}, 3])", "[{'name': u1, 'filepath': 'x'}, 3, u1]"),
        ("kwargs.third_key", "{'value.items_contain': {'cfg': {'a': 1, 'b': a, BS + 'Path.length': 0}}}", "Value.items_contain(cfg={'a': 1, 'b': a, 'Path.length': 0})", "[{'cfg': {'a': 1, 'b': u1, 'Path.length': 0}}, u1]"),
        ("two_escaped", "{'value.not_equal_to': {BS + 'path': 1, 'my' + BS + 'PATH': a, 'z': 0}}", "Value.not_equal_to({'path': 1, 'myPATH': a, 'z': 0})", "[{'path': 1, 'myPATH': u1, 'z': 0}, u1]"),
        ("single_key", "{'value.equal_to': {BS + 'path.first': [a]}}", "Value.equal_to({'path.first': [a]})", "[{'path.first': [u1]}, u1]"),
    ]:
        body = f"""
BS = chr(92)
spec = {spec}
d = {dsl}
c = ConditionLike.from_spec(spec)
doc = {doc}
ok = note('parsed condition equals the DSL-built one', c == d and type(c) is type(d))
ok = ok and same('both filter identically', c.filter(doc).result, d.filter(doc).result)
return ok
"""
        out.append(mk_case(f"c09.escaped_literal.{cid}", [("a", "int"), ("u1", "int")], body, pre=[f"BU({L}, a, u1)"], stubs=["sym_repr"]))
    # several specs sharing one argument object (a YAML anchor / alias, a shared Python list): each still means its own DSL term
    for cid, setup, spec, dsl, doc in [
        ("dtype_then_in", "names = ['str', 'map']", "{'or': [{'value.dtype.in': names}, {'value.in': names}]}", "Value.dtype.in_([str, dict]) | Value.in_(['str', 'map'])", "[u1, 'map', {}, 'x']"),
        ("in_then_dtype", "names = ['int', 'LIST']", "{'and': [{'value.not_in': names}, {'value.type.not_in': names}]}", "Value.not_in(['int', 'LIST']) & Value.dtype.not_in([int, list])", "[u1, 'int', [], 'x']"),
        ("key_dtype_then_keys", "names = ['str', 'int']", "{'xor': [{'key.dtype.in': names}, {'value.keys_contain_any_of': names}]}", "Key.dtype.in_([str, int]) ^ Value.keys_contain_any_of('str', 'int')", "{'a': u1, 1: {'str': 0}, None: {'k': 1}}"),
        ("is_instance_then_in", "names = ['str', 'dict']", "{'or': [{'value.is_instance': names}, {'value.in': names}]}", "Value.is_instance(str, dict) | Value.in_(['str', 'dict'])", "[u1, 'dict', {}, 0]"),
        ("two_parses", "names = ['int', 'float']", "{'value.in': names}", "Value.in_(['int', 'float'])", "[u1, 'int', 1.5]"),
    ]:
        pre_parse = "ConditionLike.from_spec({'value.dtype.not_in': names})\n" if cid == "two_parses" else ""
        body = f"""
{setup}
{pre_parse}spec = {spec}
d = {dsl}
c = ConditionLike.from_spec(spec)
doc = {doc}
ok = note('parsed condition equals the DSL-built one', c == d and type(c) is type(d))
ok = ok and same('both filter identically', c.filter(doc).result, d.filter(doc).result)
return ok
"""
        out.append(mk_case(f"c09.shared_argument.{cid}", [("u1", U)], body, pre=[f"BU({L}, u1)"], stubs=["sym_repr"]))
    # history: the outcome of a parse must not depend on what was parsed before it in the process
    seqs = [
        [("value.length.eq", "n", "Value.length.equal_to(n)"), ("value.keys_contain", "'k'", "Value.keys_contain('k')"), ("value.dtype.in", "['int']", "Value.dtype.in_([int])"), ("value.items_contain", "{'k': n}", "Value.items_contain(k=n)")],
        [("key.dtype.eq", "'str'", "Key.dtype.equal_to(str)"), ("key.keys_contain_any_of", "['k']", "Key.keys_contain_any_of('k')"), ("key.len.lt", "n", "Key.length.less_than(n)"), ("key.required_keys", "['k', 'j']", "Key.required_keys('k', 'j')")],
        [("value.keys_contain", "'k'", "Value.keys_contain('k')"), ("value.length.gt", "n", "Value.length.greater_than(n)"), ("value.allowed_keys", "['k']", "Value.allowed_keys('k')")],
        [("index.lt", "n", "Index.less_than(n)"), ("value.type.eq", "'int'", "Value.dtype.equal_to(int)"), ("value.keys_equal_to", "['k']", "Value.keys_equal_to('k')"), ("index.in", "[n, 1]", "Index.in_([n, 1])")],
        [("value.is_instance", "['int']", "Value.is_instance(int)"), ("value.dtype.eq", "'int'", "Value.dtype.equal_to(int)"), ("value.is_instance", "['str', 'int']", "Value.is_instance(str, int)"), ("value.keys_is_instance", "['str']", "Value.keys_is_instance(str)")],
    ]
    for sn, seq in enumerate(seqs):
        for order in ("fwd", "rev"):
            items = seq if order == "fwd" else list(reversed(seq))
            lines = "\n".join(
                f"ok = ok and note('parse #{i} ({k}) equals the DSL-built condition', ConditionLike.from_spec({{{k!r}: {v}}}) == {dsl})"
                for i, (k, v, dsl) in enumerate(items))
            body = f"""
ok = True
{lines}
return ok
"""
            out.append(mk_case(f"c09.history.{sn}.{order}", [("n", "int")], body, pre=["I64(n)"], stubs=["sym_repr"]))
    # and/or/xor lists with mixed-case leaf keys, nested to depth 2
    for op1 in ("and", "or", "xor"):
        for op2 in ("and", "or", "xor"):
            sym = {"and": "&", "or": "|", "xor": "^"}
            body = f"""
spec = {{{op1!r}: [{{'VALUE.Greater_Than': t}}, {{{op2!r}: [{{'value.TYPE.eq': 'STR'}}, {{'Value.len.LT': n}}]}}, {{'value.in': [a, None]}}]}}
d = (Value.greater_than(t) {sym[op1]} (Value.dtype.equal_to(str) {sym[op2]} Value.length.less_than(n))) {sym[op1]} Value.in_([a, None])
c = ConditionLike.from_spec(spec)
doc = [u1, 'ab', None]
ok = note('parsed tree equals the DSL-built one', c == d)
ok = ok and same('both filter identically', c.filter(doc).result, d.filter(doc).result)
return ok
"""
            out.append(mk_case(f"c09.tree.{op1}.{op2}", [("t", "int"), ("n", "int"), ("a", "int"), ("u1", U)], body,
                               pre=[f"BU({L}, t, n, a, u1)"], stubs=["sym_repr"]))
    return out
