"""C10 - path, part, rule and YAML specs build the same objects as the Python API."""
from engine.runner import mk_case

U = "Union[int, bool, None, str]"
MDOC = "{'a': {'b': u1, 'c': [u2, 3]}, 'k': u2, 1: [u1, 'x'], 'l': [u1, {'b': u2}]}"
LDOC = "[u1, [u2, 3], {'a': u1, 'b': u2}, 'x']"


def BOUNDS(ctx):
    return {
        "part specs": "primitives; map_value / list_value / map_or_list_value (and the default type) with condition, key, index, value, "
                      "list_condition, map_condition long forms, dotted shorthands (key.* / index.* / value.*), labels, and "
                      "combinations of them",
        "path specs": "{'path[.datum][.multi]': parts} with both suffix orders, aliases type/len, letter-case variants",
        "path strings": "token pool 'a', '1', '-1', '01', '1.5', '1e3', '', ' 1', '1_0' x delimiters '/', '.', '::' (tokens are "
                        "concrete: int()/float() parsing realises a symbolic string); behaviour compared on symbolic documents",
        "rule specs": "path, condition, cast (str->bool, str->int, none), doc in every accepted shape (str, list, mapping with str or "
                      "list description, with/without examples, absent)",
        "symbolic": "condition arguments, primitive parts, labels, document leaves",
        "YAML": "OUTSIDE the solver's claim: ruamel.yaml cannot run on symbolic text. Schema.from_yaml / from_yaml_file are exercised "
                "on the YAML dump of each rule-spec case at its solver-chosen witness atoms (one concrete run per case; counted in "
                "traces_validated_against_impl, not in the confirmed obligations)",
    }


def eq_case(cid, params, pres, spec_expr, api_expr, probe, L, stubs=("sym_repr",)):
    body = f"""
parsed = {spec_expr}
built = {api_expr}
ok = note('parsed object equals the API-built one', parsed == built and type(parsed) is type(built))
ok = ok and same('both behave identically', {probe.replace('OBJ', 'parsed')}, {probe.replace('OBJ', 'built')})
return ok
"""
    return mk_case(cid, params, body, pre=pres, stubs=list(stubs))


def cases(ctx):
    L = 2 if ctx.quick else 3
    out = []
    base = [("u1", U), ("u2", "int")]
    bpre = f"BU({L}, u1, u2"
    pm = f"DataPath(OBJ).get_data({MDOC}, return_paths=True)"
    pl = f"DataPath(OBJ).get_data({LDOC}, return_paths=True)"
    CV = "ContainerValue.from_spec"
    # ---- container part specs
    part_cases = [
        ("map.bare", [], "{'type': 'map_value'}", "MapValue()", pm),
        ("list.bare", [], "{'type': 'list_value'}", "ListValue()", pl),
        ("mol.bare", [], "{'type': 'map_or_list_value'}", "MapOrListValue()", pl),
        ("mol.default_type", [], "{}", "MapOrListValue()", pm),
        ("map.key.long", [("k", "str")], "{'type': 'map_value', 'key': {'key.equal_to': k}}", "MapValue(key=k)", pm),
        ("map.key.short", [("k", "str")], "{'type': 'map_value', 'key.equal_to': k}", "MapValue(key=Key.equal_to(k))", pm),
        ("map.key.short.case", [("k", "str")], "{'type': 'map_value', 'key.EQ': k}", "MapValue(k)", pm),
        ("map.key.dtype.short", [], "{'type': 'map_value', 'key.dtype.equal_to': 'str'}", "MapValue(key=Key.dtype.equal_to(str))", pm),
        ("map.value.long", [("t", "int")], "{'type': 'map_value', 'value': {'value.gt': t}}", "MapValue(value=Value.gt(t))", pm),
        ("map.value.short", [("t", "int")], "{'type': 'map_value', 'value.greater_than': t}", "MapValue(value=Value.greater_than(t))", pm),
        ("map.value.len.short", [("t", "int")], "{'type': 'map_value', 'value.length.lt': t}", "MapValue(value=Value.length.lt(t))", pm),
        ("map.condition", [("t", "int")], "{'type': 'map_value', 'condition': {'value.gt': t}}", "MapValue(condition=Value.gt(t))", pm),
        ("map.condition.tree", [("t", "int"), ("k", "str")], "{'type': 'map_value', 'condition': {'or': [{'key.eq': k}, {'value.gt': t}]}}", "MapValue(condition=Key.eq(k) | Value.gt(t))", pm),
        ("map.key+value", [("k", "str"), ("t", "int")], "{'type': 'map_value', 'key': {'key.not_equal_to': k}, 'value': {'value.gt': t}}", "MapValue(key=Key.not_equal_to(k), value=Value.gt(t))", pm),
        ("map.key+value.short", [("k", "str"), ("t", "int")], "{'type': 'map_value', 'key.not_equal_to': k, 'value.gt': t}", "MapValue(key=Key.not_equal_to(k), value=Value.gt(t))", pm),
        ("map.cond+key+value", [("k", "str"), ("t", "int")], "{'type': 'map_value', 'condition': {'value.is_instance': ['int', 'bool']}, 'key': {'key.not_equal_to': k}, 'value': {'value.gt': t}}", "MapValue(condition=Value.is_instance(int, bool), key=Key.not_equal_to(k), value=Value.gt(t))", pm),
        ("map.label", [("lab", "str")], "{'type': 'map_value', 'label': lab}", "MapValue(label=lab)", pm),
        ("map.label+key", [("lab", "str"), ("k", "str")], "{'type': 'map_value', 'key.eq': k, 'label': lab}", "MapValue(key=k, label=lab)", pm),
        ("list.value.two_short", [("t", "int"), ("t2", "int")], "{'type': 'list_value', 'value.greater_than': t, 'value.less_than': t2}", "ListValue(value=Value.greater_than(t) & Value.less_than(t2))", pl),
        ("map.key.two_short", [("n", "int")], "{'type': 'map_value', 'key.dtype.equal_to': 'str', 'key.length.equal_to': n}", "MapValue(key=Key.dtype.equal_to(str) & Key.length.equal_to(n))", pm),
        ("map.value.three_short", [("t", "int"), ("t2", "int")], "{'type': 'map_value', 'value.dtype.eq': 'int', 'value.gt': t, 'value.lte': t2}", "MapValue(value=(Value.dtype.eq(int) & Value.gt(t)) & Value.lte(t2))", pm),
        ("mol.index.two_short", [("k", "str"), ("n", "int"), ("t", "int")], "{'type': 'map_or_list_value', 'index.greater_than': n, 'index.less_than': t, 'key.eq': k}", "MapOrListValue(index=Index.greater_than(n) & Index.less_than(t), key=k)", pl),
        ("list.index.long", [("n", "int")], "{'type': 'list_value', 'index': {'index.equal_to': n}}", "ListValue(index=n)", pl),
        # long form and dotted shorthand given together for the same datum: both apply (AND-ed), whichever comes first in the mapping
        ("map.key.long+short", [("k", "str"), ("n", "int")], "{'type': 'map_value', 'key': {'key.in': [k, 'b']}, 'key.length.less_than': n}", "MapValue(key=Key.length.less_than(n) & Key.in_([k, 'b']))", pm),
        ("map.key.short+long", [("k", "str"), ("n", "int")], "{'type': 'map_value', 'key.length.less_than': n, 'key': {'key.not_equal_to': k}}", "MapValue(key=Key.length.less_than(n) & Key.not_equal_to(k))", pm),
        ("list.index.long+short", [("n", "int"), ("t", "int")], "{'type': 'list_value', 'index': {'index.greater_than': n}, 'index.less_than': t}", "ListValue(index=Index.less_than(t) & Index.greater_than(n))", pl),
        ("mol.key+index.long+short", [("k", "str"), ("n", "int"), ("t", "int")], "{'key': {'key.not_equal_to': k}, 'key.length.gt': 0, 'index': {'index.gte': n}, 'index.lt': t}", "MapOrListValue(key=Key.length.gt(0) & Key.not_equal_to(k), index=Index.lt(t) & Index.gte(n))", pl),
        ("map.value.long+short", [("t", "int"), ("t2", "int")], "{'type': 'map_value', 'value.less_than': t2, 'value': {'value.greater_than': t}}", "MapValue(value=Value.greater_than(t) & Value.less_than(t2))", pm),
        ("list.index.short", [("n", "int")], "{'type': 'list_value', 'index.less_than': n}", "ListValue(index=Index.less_than(n))", pl),
        ("list.value.long", [("t", "int")], "{'type': 'list_value', 'value': {'value.eq': t}}", "ListValue(value=t)", pl),
        ("list.index+value", [("n", "int"), ("t", "int")], "{'type': 'list_value', 'index.lt': n, 'value': {'value.dtype.eq': 'int'}}", "ListValue(index=Index.lt(n), value=Value.dtype.eq(int))", pl),
        ("list.condition", [("n", "int")], "{'type': 'list_value', 'condition': {'index.gte': n}}", "ListValue(condition=Index.gte(n))", pl),
        ("list.label", [("lab", "str")], "{'type': 'list_value', 'label': lab}", "ListValue(label=lab)", pl),
        ("mol.key+index.long", [("k", "str"), ("n", "int")], "{'type': 'map_or_list_value', 'key': {'key.eq': k}, 'index': {'index.eq': n}}", "MapOrListValue(key=k, index=n)", pm),
        ("mol.key+index.short", [("k", "str"), ("n", "int")], "{'key.eq': k, 'index.eq': n}", "MapOrListValue(key=k, index=n)", pl),
        ("mol.value", [("t", "int")], "{'type': 'map_or_list_value', 'value.gt': t}", "MapOrListValue(value=Value.gt(t))", pl),
        ("mol.list_condition", [("n", "int")], "{'list_condition': {'index.lt': n}, 'map_condition': {'key.dtype.eq': 'str'}}", "MapOrListValue(list_condition=Index.lt(n), map_condition=Key.dtype.eq(str))", pm),
        ("mol.all", [("k", "str"), ("n", "int"), ("t", "int"), ("lab", "str")], "{'type': 'map_or_list_value', 'key.ne': k, 'index.lt': n, 'value': {'value.gt': t}, 'label': lab}" if False else "{'type': 'map_or_list_value', 'key.not_equal_to': k, 'index.lt': n, 'value': {'value.gt': t}, 'label': lab}", "MapOrListValue(key=Key.not_equal_to(k), index=Index.lt(n), value=Value.gt(t), label=lab)", pl),
    ]
    for cid, extra, spec, api, probe in part_cases:
        params = extra + base
        names = ", ".join(p[0] for p in params)
        out.append(eq_case(f"c10.part.{cid}", params, [f"BU({L}, {names})"], f"{CV}({spec})", api, probe, L))
    # ---- part-spec lists -> paths
    gm = f"OBJ.get_data({MDOC}, return_paths=True)"
    gl = f"OBJ.get_data({LDOC}, return_paths=True)"
    path_cases = [
        ("prims", [("s", "str"), ("i", "int")], "DataPath.from_part_specs('a', s, i)", "DataPath('a', s, i)", gm),
        ("prims.float_bool", [], "DataPath.from_part_specs(1.0, True)", "DataPath(1.0, True)", gm),
        ("mixed", [("s", "str"), ("t", "int")], "DataPath.from_part_specs(s, {'type': 'list_value', 'value.gt': t})", "DataPath(s, ListValue(value=Value.gt(t)))", gm),
        ("mixed3", [("i", "int"), ("k", "str")], "DataPath.from_part_specs(i, {'type': 'map_value', 'key.eq': k}, {})", "DataPath(i, MapValue(k), MapOrListValue())", gl),
        ("empty", [], "DataPath.from_part_specs()", "DataPath()", gm),
        ("spec.plain", [("s", "str")], "DataPath.from_spec({'path': ['a', s]})", "DataPath('a', s)", gm),
        ("spec.tuple", [("s", "str")], "DataPath.from_spec({'PATH': ('a', s)})", "DataPath('a', s)", gm),
    ]
    for dm, api_dm in [("length", "length"), ("len", "length"), ("dtype", "dtype"), ("type", "dtype"), ("map_keys", "map_keys"), ("map_values", "map_values"), ("LENGTH", "length")]:
        path_cases.append((f"spec.datum.{dm}", [("s", "str")], f"DataPath.from_spec({{'path.{dm}': ['a', s]}})", f"DataPath('a', s).{api_dm}()", gm))
    for mm in ["first", "last", "single", "all", "FIRST"]:
        path_cases.append((f"spec.multi.{mm}", [("t", "int")], f"DataPath.from_spec({{'path.{mm}': [{{'type': 'map_value', 'value.gt': t}}]}})", f"DataPath(MapValue(value=Value.gt(t))).{mm.lower()}()", gm))
    for dm, mm in [("length", "first"), ("map_keys", "last"), ("type", "all"), ("map_values", "single"), ("len", "last")]:
        api_dm = {"type": "dtype", "len": "length"}.get(dm, dm)
        path_cases.append((f"spec.both.{dm}.{mm}", [("t", "int")], f"DataPath.from_spec({{'path.{dm}.{mm}': [{{'type': 'map_value', 'value.length.gt': t}}]}})", f"DataPath(MapValue(value=Value.length.gt(t))).{api_dm}().{mm}()", gm))
        path_cases.append((f"spec.both.{mm}.{dm}", [("t", "int")], f"DataPath.from_spec({{'Path.{mm}.{dm}': [{{'type': 'map_value', 'value.length.gt': t}}]}})", f"DataPath(MapValue(value=Value.length.gt(t))).{mm}().{api_dm}()", gm))
    for cid, extra, spec, api, probe in path_cases:
        params = extra + base
        names = ", ".join(p[0] for p in params)
        # get_data with `single` may raise ValueError for both alike: compare outcomes incl. the exception type
        probe2 = f"outcome(lambda: {probe})"
        out.append(eq_case(f"c10.path.{cid}", params, [f"BU({L}, {names})"], spec, api, probe2, L))
    # ---- path strings (tokens concrete)
    toks = ["a", "1", "-1", "01", "1.5", "1e3", "", " 1", "1_0", "k", "l"]
    exp = {
        "a": "'a'", "k": "'k'", "l": "'l'", "": "''",
        "1": "MapOrListValue(key=Key.in_(('1', 1)), index=1)", "-1": "MapOrListValue(key=Key.in_(('-1', -1)), index=-1)",
        "01": "MapOrListValue(key=Key.in_(('01', 1)), index=1)", " 1": "MapOrListValue(key=Key.in_((' 1', 1)), index=1)",
        "1_0": "MapOrListValue(key=Key.in_(('1_0', 10)), index=10)",
        "1.5": "MapValue(key=Key.in_(('1.5', 1.5)))", "1e3": "MapValue(key=Key.in_(('1e3', 1000.0)))",
    }
    sdoc = "{'a': {'1': u1, 1: u2, 'k': [u1, u2]}, 'l': [u1, [u2]], '1': u2, 1.5: u1, '1.5': [u2], '': {'k': u1}, 'k': {1.5: u2, '1e3': u1, 1000: u2}}"
    seqs = [["a", "1"], ["l", "1"], ["1"], ["1.5"], ["k", "1e3"], ["a", "k", "01"], ["", "k"], ["l", " 1", "1_0"], ["a", "-1"], ["l", "1", "0" if False else "01"]]
    for n, seq in enumerate(seqs):
        for delim in (["/"] if ctx.quick and n % 3 else ["/", ".", "::"]):
            if delim == "." and any("." in t for t in seq):
                continue
            text = delim.join(seq)
            call = f"DataPath.from_str({text!r})" if delim == "/" else f"DataPath.from_str({text!r}, delimiter={delim!r})"
            api = "DataPath(" + ", ".join(exp[t] for t in seq) + ")"
            out.append(eq_case(f"c10.str.{n}.{['/', '.', '::'].index(delim)}", base, [f"BU({L}, u1, u2)"], call, api,
                               f"OBJ.get_data({sdoc}, return_paths=True)", L))
    out.append(eq_case("c10.str.empty", base, [f"BU({L}, u1, u2)"], "DataPath.from_str('')", "DataPath()", f"OBJ.get_data({MDOC})", L))
    out.append(eq_case("c10.str.none", base, [f"BU({L}, u1, u2)"], "DataPath.from_str(None)", "DataPath()", f"OBJ.get_data({MDOC})", L))
    # ---- rule specs (+ the YAML route on the witness)
    docs = [
        ("nodoc", "", "None"),
        ("doc.str", ", 'doc': ' some text \\n'", "{'description': ['some text'], 'examples': []}"),
        ("doc.list", ", 'doc': ['one ', ' two\\n']", "{'description': ['one', 'two'], 'examples': []}"),
        ("doc.map.str", ", 'doc': {'description': ' d \\n'}", "{'description': ['d'], 'examples': []}"),
        ("doc.map.list", ", 'doc': {'description': ['d1', 'd2 '], 'examples': [' e1\\n']}", "{'description': ['d1', 'd2'], 'examples': ['e1']}"),
        ("doc.map.examples_only", ", 'doc': {'examples': ['e1 ']}", "{'description': [], 'examples': ['e1']}"),
        ("doc.empty", ", 'doc': ''", "''"),
    ]
    casts = [("nocast", "", "None"), ("cast.bool", ", 'cast': {'str': 'bool'}", "{str: valida.casting.cast_string_to_bool}"),
             ("cast.int", ", 'cast': {'str': 'int'}", "{str: int}"), ("cast.empty", ", 'cast': {}", "{}")]
    rdoc = "{'a': {'b': u1}, 's': 'true', 'n': '3', 'l': [u2, '3', 'x']}"
    rule_shapes = [
        ("concrete", "['a', 'b']", "{'value.equal_to': t}", "('a', 'b')", "Value.equal_to(t)"),
        ("fan", "['l', {'type': 'list_value'}]", "{'value.dtype.in': ['int', 'str']}", "('l', ListValue())", "Value.dtype.in_([int, str])"),
        ("cast_target", "['s']", "{'value.equal_to': True}", "('s',)", "Value.equal_to(True)"),
        ("cast_int", "[{'type': 'map_value', 'key.in': ['n', 'zz']}]", "{'and': [{'value.gt': t}, {'value.is_instance': ['int']}]}", "(MapValue(key=Key.in_(['n', 'zz'])),)", "Value.gt(t) & Value.is_instance(int)"),
        ("null_cond", "['a']", "{}", "('a',)", "NullCondition()"),
    ]
    n = 0
    for sid, pspec, cspec, papi, capi in rule_shapes:
        for did, dspec, dexp in (docs if not ctx.quick else [docs[n % len(docs)], docs[(n + 3) % len(docs)]]):
            for kid, kspec, kapi in (casts if not ctx.quick else [casts[n % len(casts)], casts[(n + 1) % len(casts)]]):
                n += 1
                body = f"""
spec = {{'path': {pspec}, 'condition': {cspec}{kspec}{dspec}}}
built = Rule({papi}, {capi}, cast={kapi})
parsed = Rule.from_spec(spec)
ok = note('parsed rule equals the API-built one', parsed == built)
ok = ok and same('normalised doc', parsed.doc, {dexp})
doc = {rdoc}
ok = ok and same('both validate identically', summarize_test(parsed.test(doc)), summarize_test(built.test(doc)))
ok = ok and same('schema from json-like', summarize_validation(Schema.from_json_like([{{'path': {pspec}, 'condition': {cspec}{kspec}{dspec}}}]).validate(doc)), summarize_validation(Schema([built]).validate(doc)))
if concrete_run() and yaml_safe_atoms(t, u1):
    # the YAML text route, on this run's concrete atoms only (outside the solver's claim)
    text = yaml_text({{'rules': [{{'path': {pspec}, 'condition': {cspec}{kspec}{dspec}}}]}})
    ys = Schema.from_yaml(text)
    ok = ok and note('YAML route builds an equal schema', ys == Schema([built]))
    ok = ok and same('YAML route validates identically', summarize_validation(ys.validate(doc)), summarize_validation(Schema([built]).validate(doc)))
    import tempfile, os
    fd, fn = tempfile.mkstemp(suffix='.yaml')
    os.write(fd, text.encode('utf-8'))
    os.close(fd)
    yf = Schema.from_yaml_file(fn)
    os.remove(fn)
    ok = ok and note('YAML file route builds an equal schema', yf == Schema([built]))
return ok
"""
                out.append(mk_case(f"c10.rule.{sid}.{kid}.{did}", [("t", "int"), ("u1", "Union[int, bool, None]"), ("u2", "int")], body,
                                   pre=[f"BU({L}, t, u1, u2)"], stubs=["sym_repr"]))
    body = """
built = Schema([Rule(('answer',), Value.in_(['yes', 'no'])), Rule(('mode',), Value.equal_to(10))])
doc = {'answer': u1, 'mode': u2}
ok = True
if concrete_run():
    plain = "rules:\\n  - path: [answer]\\n    condition:\\n      value.in: [yes, no]\\n  - path: [mode]\\n    condition:\\n      value.equal_to: 010\\n"
    first = Schema.from_yaml(plain)
    ok = ok and note('plain YAML schema equals the API-built one', first == built)
    other = Schema.from_yaml("%YAML 1.1\\n---\\nrules:\\n  - path: [a]\\n    condition: {value.truthy: null}\\n")
    again = Schema.from_yaml(plain)
    ok = ok and note('the same text parses the same after another document was loaded', again == built and again == first)
    ok = ok and same('... and validates identically', summarize_validation(again.validate(doc)), summarize_validation(built.validate(doc)))
return ok
"""
    out.append(mk_case("c10.yaml.history", [("u1", "Union[int, bool, None]"), ("u2", "int")], body, pre=[f"BU({L}, u1, u2)"], stubs=["sym_repr"]))
    # rule lists holding blocks that parse to ==-equal rules (the same check documented twice, a conjunction written in the
    # other operand order, a block repeated): every block is a rule of the schema, as in the API-built one
    body = """
specs = [{'path': ['sizes', {'type': 'list_value'}], 'condition': {'value.greater_than': t}, 'doc': 'Every size is positive.'},
         {'path': ['sizes', {'type': 'list_value'}], 'condition': {'value.greater_than': t}, 'doc': {'description': 'In millimetres.', 'examples': ['sizes: [10]']}},
         {'path': ['n'], 'condition': {'and': [{'value.greater_than': t}, {'value.less_than': 9}]}},
         {'path': ['n'], 'condition': {'and': [{'value.less_than': 9}, {'value.greater_than': t}]}}]
api = Schema([Rule(('sizes', ListValue()), Value.greater_than(t)), Rule(('sizes', ListValue()), Value.greater_than(t)),
              Rule(('n',), Value.greater_than(t) & Value.less_than(9)), Rule(('n',), Value.less_than(9) & Value.greater_than(t))])
doc = {'sizes': [u2, 12], 'n': u2}
w = api.validate(doc)
routes = [('Schema.from_json_like', Schema.from_json_like(specs)), ('Schema(init_rules)', Schema(Schema.init_rules(specs)))]
if concrete_run():
    routes.append(('Schema.from_yaml', Schema.from_yaml(yaml_text({'rules': specs}))))
ok = True
for label, sch in routes:
    ok = ok and note(label + ': as many rules as blocks', len(sch.rules) == 4) and note(label + ': equals the API-built schema', sch == api)
    v = sch.validate(doc)
    ok = ok and same(label + ': validates identically', (v.is_valid, v.num_failures, v.num_rules_tested), (w.is_valid, w.num_failures, w.num_rules_tested))
return ok
"""
    out.append(mk_case("c10.schema.equal_rule_blocks", [("t", "int"), ("u2", "int")], body, pre=[f"BU({L}, t, u2)"], stubs=["sym_repr"]))
    return out
