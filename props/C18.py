"""C18 - add_schema adds re-rooted rules and leaves the added schema intact."""
from engine.runner import mk_case

U = "Union[int, bool, None, str]"
DOC = "{'a': {'p': u1, 'q': [u2, 3], 'r': {'p': u2}}, 'b': {'p': u2, 'q': []}, 'p': u1, 'l': [{'p': u1}, {'p': 5, 'q': [u2]}]}"

# T's rules as (path term, condition term); S's own rules likewise
T_RULES = {
    "tp": ("(('prim', 'p'),)", "V('greater_than', t)"),
    "tq": ("(('prim', 'q'), ('list', NULL))", "V('is_instance', int)"),
    "troot": ("()", "V('keys_contain', 'p')"),
    "trp": ("(('prim', 'r'), ('prim', 'p'))", "V('equal_to', t)"),
}
S_RULES = {
    "sp": ("(('prim', 'p'),)", "V('truthy')"),
    "sab": ("(('prim', 'a'), ('prim', 'p'))", "V('not_equal_to', t)"),
    "sl": ("(('prim', 'l'), ('list', NULL), ('prim', 'p'))", "V('is_instance', int)"),
}
ROOTS = {
    "a": "(('prim', 'a'),)",
    "b": "(('prim', 'b'),)",
    "ar": "(('prim', 'a'), ('prim', 'r'))",
    "empty": "()",
    "lfan": "(('prim', 'l'), ('list', NULL))",
    "zz": "(('prim', 'zz'),)",
}


def BOUNDS(ctx):
    return {
        "schemas": "S of 0-2 rules, T of 1-2 rules (concrete, fan-out and empty paths), roots of length 0-2 (concrete, fan-out, "
                   "non-existent); sequences: T into S under R1; the same T under R1 then R2; T into S1 and into S2",
        "assertions": "S.rules = previous rules + T's rules re-rooted at R, shortest path first (stable); S.validate(doc) verdict, "
                      "failure count, tested count and failing paths = reference rule semantics of S's own rules plus T's rules "
                      "walked from R; cross-checked against the real T.validate(node at R) when R is concrete and the node is a "
                      "non-empty container; identity graph of T and its rules unchanged (the inductive step that makes every later "
                      "addition independent); T still validates like a fresh T",
        "symbolic": "document leaves u1 (Union), u2 (int) and the threshold t",
    }


def terms_src(table, names):
    return "[" + ", ".join(f"({table[n][0]}, {table[n][1]})" for n in names) + "]"


def expect_block():
    return """
def expected(own, added_sets, doc):
    # reference: S's own rules plus, per addition (root, T rules), T's rules walked from the root
    terms = list(own)
    for root, trules in added_sets:
        terms += [(root + pt, ct) for pt, ct in trules]
    refs = [ref_rule(pt, ct, doc) for pt, ct in terms]
    return (all(r[0] for r in refs), sum(len(r[2]) for r in refs), sum(1 for r in refs if r[1]),
            sorted(tx(cp) for r in refs for _, cp in r[2]))
def observed(v):
    return (v.is_valid, v.num_failures, v.num_rules_tested, sorted(tx(tuple(f.path)) for rt in v.rule_tests for f in rt.failures))
def build(terms):
    return [Rule(build_path(pt), build_cond(ct)) for pt, ct in terms]
"""


def single_case(snames, tnames, root, L):
    body = f"""
{expect_block()}
S_T = {terms_src(S_RULES, snames)}
T_T = {terms_src(T_RULES, tnames)}
R = {ROOTS[root]}
doc = {DOC}
S, T = Schema(build(S_T)), Schema(build(T_T))
own_rules = list(S.rules)
t_rules = list(T.rules)
snap = idsnap(T, *t_rules)
t_before = observed(T.validate(doc['a']))
S.add_schema(T, build_path(R))
ok = note('T and its rules unchanged', idsnap(T, *t_rules) == snap and T.rules == t_rules and all(x is y for x, y in zip(T.rules, t_rules)))
ok = ok and note('S keeps its own rule objects', all(any(r is o for r in S.rules) for o in own_rules) and len(S.rules) == len(S_T) + len(T_T))
ok = ok and note('shortest path first', all(len(S.rules[i].path) <= len(S.rules[i + 1].path) for i in range(len(S.rules) - 1)))
ok = ok and same('S judges the document as before plus T at R', observed(S.validate(doc)), expected(S_T, [(R, T_T)], doc))
ok = ok and same('T still validates as before', observed(T.validate(doc['a'])), t_before)
ok = ok and same('T validates like a fresh T', observed(T.validate(doc['a'])), observed(Schema(build(T_T)).validate(doc['a'])))
if path_is_concrete(R):
    sel = ref_walk(R, doc)
    if len(sel) == 1 and filterable(sel[0][0]):
        # cross-check with the real T on the node at R
        tv = T.validate(sel[0][0])
        s0 = Schema(build(S_T)).validate(doc)
        sv = S.validate(doc)
        ok = ok and same('validity = S0 and T at R', sv.is_valid, s0.is_valid and tv.is_valid)
        ok = ok and same('failures = S0 + T at R', sv.num_failures, s0.num_failures + tv.num_failures)
return ok
"""
    return mk_case(f"c18.add.{'+'.join(snames) or 'empty'}.{'+'.join(tnames)}.{root}", [("t", "int"), ("u1", U), ("u2", "int")], body,
                   pre=[f"BU({L}, t, u1, u2)"], stubs=["sym_repr"])


def seq_case(tnames, r1, r2, mode, L):
    """the same T under R1 then R2 (into one S) or into S1 and S2"""
    body = f"""
{expect_block()}
S_T = {terms_src(S_RULES, ['sp'])}
T_T = {terms_src(T_RULES, tnames)}
R1, R2 = {ROOTS[r1]}, {ROOTS[r2]}
doc = {DOC}
T = Schema(build(T_T))
t_rules = list(T.rules)
snap = idsnap(T, *t_rules)
"""
    if mode == "same_s":
        body += """
S = Schema(build(S_T))
S.add_schema(T, build_path(R1))
first = observed(S.validate(doc))
ok = same('after the first addition', first, expected(S_T, [(R1, T_T)], doc))
S.add_schema(T, build_path(R2))
ok = ok and same('after the second addition of the same T', observed(S.validate(doc)), expected(S_T, [(R1, T_T), (R2, T_T)], doc))
"""
    else:
        body += """
S1, S2 = Schema(build(S_T)), Schema([])
S1.add_schema(T, build_path(R1))
S2.add_schema(T, build_path(R2))
ok = same('S1', observed(S1.validate(doc)), expected(S_T, [(R1, T_T)], doc))
ok = ok and same('S2', observed(S2.validate(doc)), expected([], [(R2, T_T)], doc))
ok = ok and same('S1 unaffected by the addition into S2', observed(S1.validate(doc)), expected(S_T, [(R1, T_T)], doc))
"""
    body += """
ok = ok and note('T and its rules unchanged', idsnap(T, *t_rules) == snap and all(x is y for x, y in zip(T.rules, t_rules)))
ok = ok and same('T validates like a fresh T', observed(T.validate(doc['a'])), observed(Schema(build(T_T)).validate(doc['a'])))
return ok
"""
    return mk_case(f"c18.seq.{mode}.{'+'.join(tnames)}.{r1}.{r2}", [("t", "int"), ("u1", U), ("u2", "int")], body,
                   pre=[f"BU({L}, t, u1, u2)"], stubs=["sym_repr"])


def cases(ctx):
    L = 2 if ctx.quick else 3
    out = []
    singles = [([], ["tp"], "a"), (["sp"], ["tp"], "a"), (["sp"], ["tp", "tq"], "b"), (["sab", "sl"], ["tp"], "ar"), (["sp"], ["troot", "tp"], "a"),
               (["sp"], ["tp"], "empty"), (["sab"], ["tp"], "lfan"), (["sp"], ["tp", "trp"], "zz"), ([], ["troot"], "empty"), (["sl"], ["tq", "trp"], "a")]
    if not ctx.quick:
        singles += [(s, t, r) for s in ([], ["sp"], ["sab", "sl"]) for t in (["tp"], ["tq", "troot"], ["trp", "tp"]) for r in ROOTS]
    seen = set()
    for s, t, r in singles:
        key = (tuple(s), tuple(t), r)
        if key in seen:
            continue
        seen.add(key)
        out.append(single_case(s, t, r, L))
    # a cast-less rule of T re-rooted onto a node for which S already declares a cast (and the other way round): each rule keeps its
    # own cast mapping, a cast-less rule judges the document's own value
    for cid, s_cast, t_cast in (("s_casts", "{str: int}", "None"), ("t_casts", "None", "{str: int}")):
        # (both rules casting the same node differently is outside: the rules of one schema share one cast copy by design, C15)
        for sval in ("'3'", "'true'"):
            body = f"""
doc = {{'cfg': {{'n': {sval}, 'm': u1}}, 'k': u2}}
before = tx(doc)
def mkS():
    return Schema([Rule(('cfg', 'n'), Value.is_instance(int) | Value.equal_to('true'), cast={s_cast}), Rule(('k',), Value.greater_than(t))])
T = Schema([Rule(('n',), Value.is_instance(str) | Value.equal_to(True), cast={t_cast}), Rule(('m',), Value.not_equal_to(None))])
t_casts = [(dict(r.cast) if r.cast is not None else None) for r in T.rules]
S = mkS()
own = list(S.rules)
s0 = mkS().validate(doc)
tv = T.validate(doc['cfg'])
S.add_schema(T, DataPath('cfg'))
added = [r for r in S.rules if not any(r is o for o in own)]
ok = note('two rules added', len(added) == 2 and len(S.rules) == 4)
ok = ok and same('each re-rooted rule keeps the cast mapping of the rule it came from', sorted(tx(r.cast) for r in added), sorted(tx(c) for c in t_casts))
ok = ok and note("S's own rules keep theirs", [tx(r.cast) for r in own] == [tx(r.cast) for r in mkS().rules])
sv = S.validate(doc)
ok = ok and same('validity = S before and T at R', sv.is_valid, s0.is_valid and tv.is_valid)
ok = ok and same('failures = S before + T at R', sv.num_failures, s0.num_failures + tv.num_failures)
ok = ok and same('T unchanged', [tx(r.cast) for r in T.rules], [tx(c) for c in t_casts]) and same('T judges as before', summarize_validation(T.validate(doc['cfg'])), summarize_validation(tv))
ok = ok and note('document unchanged', tx(doc) == before)
return ok
"""
            out.append(mk_case(f"c18.add.cast_collision.{cid}.{sval.strip(chr(39))}", [("t", "int"), ("u1", "Union[int, bool, None]"), ("u2", "int")], body,
                               pre=[f"BU({L}, t, u1, u2)"], stubs=["sym_repr"]))
    # T's conditions may hold any Python object as an argument (compared by identity; not copyable): the re-rooted rules judge with
    # the very same argument objects
    body = """
class Token:
    pass
sent = Token()   # equal only to itself
reg = {'x': 1, 'y': 2}
T = Schema([Rule(('v',), Value.equal_to(sent)), Rule(('w',), Value.in_([sent, t])), Rule(('z',), Value.in_(reg.keys()))])
doc = {'r': {'v': sent, 'w': u1, 'z': 'x'}, 'v': u2, 'q': [{'v': u2, 'w': sent, 'z': 'zz'}]}
tv1, tv2 = T.validate(doc['r']), T.validate(doc['q'][0])
S = Schema([Rule(('v',), Value.equal_to(u2))])
S.add_schema(T, DataPath('r'))
S.add_schema(T, DataPath('q', 0))
ok = note('six rules added', len(S.rules) == 7 and len(T.rules) == 3)
sv = S.validate(doc)
ok = ok and same('validity = T at both roots', sv.is_valid, tv1.is_valid and tv2.is_valid)
ok = ok and same('failures = T at both roots', sv.num_failures, tv1.num_failures + tv2.num_failures)
return ok
"""
    out.append(mk_case("c18.add.identity_args", [("t", "int"), ("u1", "Union[int, bool, None]"), ("u2", "int")], body, pre=[f"BU({L}, t, u1, u2)"], stubs=["sym_repr"]))
    # re-rooted rules keep their cast and doc (and are judged like T's own rules on the node at R)
    for root, rdoc in (("a", "doc['a']"), ("l0", "doc['l'][0]")):
        body = f"""
doc = {{'a': {{'flag': 'true', 'n': '3', 'p': u1}}, 'l': [{{'flag': 'False', 'n': 'x', 'p': u2}}], 'flag': 'x'}}
before = tx(doc)
the_doc = {{'description': ['a flag'], 'examples': []}}
t1 = Rule(('flag',), Value.equal_to(True), cast={{str: valida.casting.cast_string_to_bool}}, doc=the_doc)
t2 = Rule(('n',), Value.greater_than(t), cast={{str: int}})
t3 = Rule(('p',), Value.is_instance(int, bool), doc='plain')
T = Schema([t1, t2, t3])
S = Schema([Rule(('flag',), Value.is_instance(str))])
R = DataPath({"'a'" if root == 'a' else "'l', 0"})
S.add_schema(T, R)
added = [r for r in S.rules if len(r.path) > 1]
ok = note('three rules added', len(added) == 3)
ok = ok and note('casts kept', [r.cast for r in added] == [t1.cast, t2.cast, t3.cast])
ok = ok and note('docs kept', [r.doc for r in added] == [t1.doc, t2.doc, t3.doc])
sv = S.validate(doc)
tv = T.validate({rdoc})
ok = ok and same('validity = own rule and T at R', sv.is_valid, tv.is_valid)
ok = ok and same('failures = T at R', sv.num_failures, tv.num_failures)
ok = ok and same('cast data at R', tx(follow(sv.cast_data, {"('a',)" if root == 'a' else "('l', 0)"})), tx(tv.cast_data))
ok = ok and note('document unchanged', tx(doc) == before)
return ok
"""
        out.append(mk_case(f"c18.add.cast_and_doc.{root}", [("t", "int"), ("u1", "Union[int, bool, None]"), ("u2", "int")], body,
                           pre=[f"BU({L}, t, u1, u2)"], stubs=["sym_repr"]))
    for part in ("two_schemas", "clone"):
        tail = {
            "two_schemas": """
S1.add_schema(T, build_path(R))
ok = same('S1 extended', observed(S1.validate(doc)), expected(S_T, [(R, T_T)], doc))
ok = ok and same('S2 (built from the same list) unaffected', observed(S2.validate(doc)), expected(S_T, [], doc)) and note('S2 rule count', len(S2.rules) == 2)
ok = ok and note('the list handed in is unaffected', len(base) == 2 and len(t_list) == 2)
return ok
""",
            "clone": """
clone = Schema(list(T.rules)) if False else Schema(T.rules)
other = Schema(build(T_T))
clone.add_schema(other, build_path(R))
ok = same('clone extended', observed(clone.validate(doc)), expected(T_T, [(R, T_T)], doc))
ok = ok and same('T unaffected by extending its clone', observed(T.validate(doc['a'])), expected(T_T, [], doc['a'])) and note('T rule count', len(T.rules) == 2 and len(T2.rules) == 2)
ok = ok and note('the list handed in is unaffected', len(t_list) == 2)
return ok
""",
        }[part]
        body = f"""
{expect_block()}
S_T = {terms_src(S_RULES, ['sp', 'sab'])}
T_T = {terms_src(T_RULES, ['tp', 'tq'])}
R = {ROOTS['a']}
doc = {DOC}
base = build(S_T)
S1, S2 = Schema(base), Schema(base)
t_list = build(T_T)
T, T2 = Schema(t_list), Schema(t_list)
{tail}
"""
        out.append(mk_case(f"c18.seq.shared_rule_list.{part}", [("t", "int"), ("u1", U), ("u2", "int")], body, pre=[f"BU({L}, t, u1, u2)"], stubs=["sym_repr"]))
    # T's rule paths carry datum / multiplicity modifiers: they must survive re-rooting
    body = """
doc = {'a': {'xs': [u1, u2, 3], 'm': {'k': u1}}, 'xs': [0]}
t1 = Rule(DataPath('xs').length(), Value.greater_than(t))
t2 = Rule(DataPath('m').map_keys(), Value.in_([['k'], ['j']]))
t3 = Rule(DataPath('xs', ListValue()).dtype(), Value.in_([int, bool]))
T = Schema([t1, t2, t3])
S = Schema([])
S.add_schema(T, DataPath('a'))
sv, tv = S.validate(doc), T.validate(doc['a'])
ok = same('S judges what lies at R as T does', (sv.is_valid, sv.num_failures, sv.num_rules_tested), (tv.is_valid, tv.num_failures, tv.num_rules_tested))
ok = ok and same('failing paths re-rooted', sorted(tx(tuple(f.path)) for rt in sv.rule_tests for f in rt.failures), sorted(tx(('a',) + tuple(f.path)) for rt in tv.rule_tests for f in rt.failures))
return ok
"""
    out.append(mk_case("c18.add.path_modifiers", [("t", "int"), ("u1", "Union[int, bool, None]"), ("u2", "int")], body, pre=[f"BU({L}, t, u1, u2)"], stubs=["sym_repr"]))
    # ... including rules of T about T's own root node (the empty path with a datum modifier), under one- and two-part roots
    for rid, rsrc, pref, sub in [("one", "DataPath('a')", "('a',)", "doc['a']"), ("two", "DataPath('o', 'i')", "('o', 'i')", "doc['o']['i']"),
                                 ("wild", "DataPath(MapValue(key=Key.equal_to('a')))", "('a',)", "doc['a']")]:
        body = f"""
doc = {{'a': {{'x': u1, 'y': u2}}, 'o': {{'i': [u1, u2, 3]}}, 'p': 0}}
t0 = Rule(DataPath().length(), Value.equal_to(t))
t1 = Rule(DataPath().dtype(), Value.equal_to(dict))
t2 = Rule(DataPath(), Value.truthy())
t3 = Rule(DataPath('x'), Value.is_instance(int))
T = Schema([t0, t1, t2, t3])
S = Schema([Rule(('p',), Value.equal_to(0))])
S.add_schema(T, {rsrc})
sub = {sub}
sv, tv = S.validate(doc), T.validate(sub)
ok = same('S judges what lies at R as T does (plus its own rule)', (sv.is_valid, sv.num_failures, sv.num_rules_tested), (tv.is_valid, tv.num_failures, tv.num_rules_tested + 1))
ok = ok and same('failing paths re-rooted', sorted(tx(tuple(f.path)) for rt in sv.rule_tests for f in rt.failures), sorted(tx({pref} + tuple(f.path)) for rt in tv.rule_tests for f in rt.failures))
return ok
"""
        out.append(mk_case(f"c18.add.root_modifiers.{rid}", [("t", "int"), ("u1", "Union[int, bool, None]"), ("u2", "int")], body, pre=[f"BU({L}, t, u1, u2)"], stubs=["sym_repr"]))
    # T's rule paths (and the root) keep their part kinds when re-rooted: a map-only part with an int / bool / float key stays
    # map-only (it must not start matching list indices), labelled and conditioned parts stay what they were
    for rid, rsrc, pref in [("one", "DataPath('r')", "('r',)"), ("two", "DataPath('top', MapValue(key='r'))", "('top', 'r')")]:
        body = f"""
at_root = [u1, u2, 'c']
doc = {{'r': at_root, 'top': {{'r': at_root}}, 'm': {{1: u1, True: u2}}}}
T = Schema([Rule((MapValue(key=1),), Value.is_instance(str)), Rule((MapValue(key=True),), Value.is_instance(str)),
            Rule((MapValue(key=2.0),), Value.is_instance(int)), Rule((MapValue(key=0, label='first'), 'x'), Value.truthy()),
            Rule((1,), Value.is_instance(int, bool) | Value.equal_to(None))])
S = Schema([])
S.add_schema(T, {rsrc})
sv, tv = S.validate(doc), T.validate(at_root)
ok = same('S judges what lies at R as T does', (sv.is_valid, sv.num_failures, sv.num_rules_tested), (tv.is_valid, tv.num_failures, tv.num_rules_tested))
ok = ok and same('failing paths re-rooted', sorted(tx(tuple(f.path)) for rt in sv.rule_tests for f in rt.failures), sorted(tx({pref} + tuple(f.path)) for rt in tv.rule_tests for f in rt.failures))
S2 = Schema([])
S2.add_schema(T, DataPath('m'))
sv, tv = S2.validate(doc), T.validate(doc['m'])
ok = ok and same('... and a mapping at R', (sv.is_valid, sv.num_failures, sv.num_rules_tested), (tv.is_valid, tv.num_failures, tv.num_rules_tested))
return ok
"""
        out.append(mk_case(f"c18.add.part_kinds_kept.{rid}", [("t", "int"), ("u1", "Union[int, bool, None]"), ("u2", "int")], body, pre=[f"BU({L}, t, u1, u2)"], stubs=["sym_repr"]))
    # a schema added to itself
    body = """
doc = {'a': {'p': u1, 'a': {'p': u2}}, 'p': u2}
S = Schema([Rule(('p',), Value.greater_than(t)), Rule(('a', 'p'), Value.is_instance(int))])
S.add_schema(S, DataPath('a'))
ok = note('four rules', len(S.rules) == 4)
fresh = Schema([Rule(('p',), Value.greater_than(t)), Rule(('a', 'p'), Value.is_instance(int)), Rule(('a', 'p'), Value.greater_than(t)), Rule(('a', 'a', 'p'), Value.is_instance(int))])
v, f = S.validate(doc), fresh.validate(doc)
ok = ok and same('judges like the explicitly built schema', (v.is_valid, v.num_failures, v.num_rules_tested), (f.is_valid, f.num_failures, f.num_rules_tested))
return ok
"""
    out.append(mk_case("c18.add.self", [("t", "int"), ("u1", "Union[int, bool, None]"), ("u2", "int")], body, pre=[f"BU({L}, t, u1, u2)"], stubs=["sym_repr"], budget=20))
    # data-path arguments inside T's conditions refer to T's document, i.e. to what lies at R (open known finding C18-patharg-not-rerooted)
    body = """
doc = {'a': {'x': u1, 'ref': u2}, 'ref': t}
T = Schema([Rule(('x',), Value.equal_to(DataPath('ref')))])
S = Schema([])
S.add_schema(T, DataPath('a'))
sv, tv = S.validate(doc), T.validate(doc['a'])
return same('S judges what lies at R as T does', (sv.is_valid, sv.num_failures), (tv.is_valid, tv.num_failures))
"""
    out.append(mk_case("c18.add.patharg_in_T", [("t", "int"), ("u1", "int"), ("u2", "int")], body, pre=["I64(t, u1, u2)"], stubs=["sym_repr"], known="C18-patharg-not-rerooted"))
    # the root is a prefix of T's own rule paths; an already combined schema added again under the same name
    body = f"""
{expect_block()}
T_T = [((('prim', 'a'), ('prim', 'p')), V('greater_than', t)), ((('prim', 'a'),), V('is_instance', dict))]
R = (('prim', 'a'),)
doc = {{'a': {{'a': {{'p': u2, 'a': {{'p': u1}}}}, 'p': u1}}, 'p': 0}}
S, T = Schema([]), Schema(build(T_T))
S.add_schema(T, build_path(R))
ok = same('root is a prefix of the added paths', observed(S.validate(doc)), expected([], [(R, T_T)], doc))
ok = ok and note('re-rooted path lengths', sorted(len(r.path) for r in S.rules) == [2, 3])
outer = Schema([])
outer.add_schema(S, build_path(R))
ok = ok and same('added again under the same name', observed(outer.validate(doc)), expected([], [(R + R, T_T)], doc))
ok = ok and same('T still validates as built', observed(T.validate(doc)), expected(T_T, [], doc))
return ok
"""
    out.append(mk_case("c18.add.root_is_prefix", [("t", "int"), ("u1", "Union[int, bool, None]"), ("u2", "int")], body, pre=[f"BU({L}, t, u1, u2)"], stubs=["sym_repr"]))
    for t, r1, r2 in [(["tp"], "a", "b"), (["tp", "tq"], "a", "ar"), (["troot"], "a", "empty"), (["tp"], "lfan", "a")]:
        out.append(seq_case(t, r1, r2, "same_s", L))
        out.append(seq_case(t, r1, r2, "two_s", L))
    return out
