"""C03 - path resolution selects exactly the nodes a part-by-part walk reaches."""
from engine.runner import mk_case

U = "Union[int, bool, None, str]"

PARTS = {
    "s": ("('prim', s)", [("s", "str")]),
    "s2": ("('prim', s2)", [("s2", "str")]),
    "a": ("('prim', 'a')", []),
    "b": ("('prim', 'b')", []),
    "c": ("('prim', 'c')", []),
    "l": ("('prim', 'l')", []),
    "e": ("('prim', '')", []),
    "i": ("('prim', i)", [("i", "int")]),
    "j": ("('prim', j)", [("j", "int")]),
    "0": ("('prim', 0)", []),
    "1": ("('prim', 1)", []),
    "f1": ("('prim', 1.0)", []),
    "f15": ("('prim', 1.5)", []),
    "T": ("('prim', True)", []),
    "bl": ("('prim', bl)", [("bl", "bool")]),
    "M": ("('map', NULL)", []),
    "L": ("('list', NULL)", []),
    "X": ("('mol', NULL, NULL, NULL)", []),
    "Mk": ("('map', K('equal_to', k))", [("k", "str")]),
    "Mnk": ("('map', K('not_equal_to', k))", [("k", "str")]),
    "Mki": ("('map', K('equal_to', i))", [("i", "int")]),
    "Mv": ("('map', V('greater_than', t))", [("t", "int")]),
    "Mkv": ("('map', ('and', K('not_equal_to', k), V('greater_than', t)))", [("k", "str"), ("t", "int")]),
    "Md": ("('map', V('is_instance', dict))", []),
    "Mlen": ("('map', leaf('value', 'length', 'greater_than', t))", [("t", "int")]),
    "Li": ("('list', IX('less_than', n))", [("n", "int")]),
    "Lie": ("('list', IX('equal_to', n))", [("n", "int")]),
    "Lv": ("('list', V('equal_to', e1))", [("e1", U)]),
    "Liv": ("('list', ('or', IX('equal_to', n), V('greater_than', t)))", [("n", "int"), ("t", "int")]),
    "Ll": ("('list', V('is_instance', list))", []),
    "Xc": ("('mol', IX('equal_to', n), K('equal_to', k), NULL)", [("n", "int"), ("k", "str")]),
    "Xv": ("('mol', NULL, NULL, V('greater_than', t))", [("t", "int")]),
    "Xiv": ("('mol', IX('less_than', n), K('not_equal_to', k), V('truthy'))", [("n", "int"), ("k", "str")]),
    # wrong-kind conditions: a key-kind tree inside a list part etc. must match nothing, not raise
    "Lk": ("('list', K('equal_to', k))", [("k", "str")]),
    "Mi": ("('map', IX('equal_to', n))", [("n", "int")]),
    # xor / or of a length pre-processor (undefined for scalars: the leaf is false there) with a leaf that holds for them
    "Lxl": ("('list', ('xor', leaf('value', 'length', 'equal_to', 2), leaf('value', 'dtype', 'equal_to', int)))", []),
    "Mxl": ("('map', ('xor', V('truthy'), leaf('value', 'length', 'less_than', t)))", [("t", "int")]),
    "Xxl": ("('mol', NULL, NULL, ('xor', leaf('value', 'length', 'greater_than', t), V('is_instance', int, str)))", [("t", "int")]),
    # extra primitives for the deep document
    "d": ("('prim', 'd')", []),
    "x": ("('prim', 'x')", []),
    "4": ("('prim', 4)", []),
}

DOCS = {
    # heterogeneous branches: list where a mapping is expected, scalars and empty containers mid-path,
    # int/float/bool/None keys, fan-out at two levels
    "dm": "{'a': {'b': u1, 'c': [u2, u3]}, 'l': [u1, {'b': u2}, [u3]], 1: u3, None: {'b': 0, 1.5: 1}, '': [], 'b': {}}",
    "dl": "[u1, [u2, {'b': u3}], {'a': u1, 1: [u2, 0], 'b': {'b': 2}}, [], {}]",
    "dk": "{True: {'b': u1}, 0: u2, 1.5: [u1], 2.0: {'a': u2, 'b': 3}, -2: u3, None: [u3, {1: 0}]}",  # concrete numeric parts only
    "di": "{True: {'b': u1}, 0: u2, 2: {'a': u2, 'b': 3}, -2: u3, None: [u3, {1: 0}], 'b': [u1]}",  # no float keys: symbolic int parts
}
# a six-level document with five-item lists, for paths of 4-7 parts (the "deep" family; not combined with every shape)
DEEP_DOC = ("{'a': {'b': {'c': [u1, {'d': [u2, u3, 7, u1, {'e': u2, 'b': [u3]}]}, 3, [u3], u2]}, 'x': [[[[u1, u2], []], {}]]}, "
            "'l': [0, u2, 2, [], [u1, [u2, [u3, {'b': u1, 'd': [u2]}], 9], {'b': {'b': u3}}]]}")
# aliasing inside the document (what a YAML anchor / alias pair loads to): the same mapping and the same list object are reached
# through several branches; every branch is a node of its own (own concrete path), values are the shared objects
ALIAS_DOC = "{'a': (sh := {'b': u1, 'c': [u2, u3]}), 'l': [sh, [u3], sh['c'], sh], 1: sh['c'], 'b': sh, 'c': [sh['c'], sh['c']]}"
ALIAS_SHAPES = [("M", "b"), ("X", "X"), ("l", "L", "b"), ("M", "c", "i"), ("X", "X", "X"), ("l", "Lie", "c"), ("M", "Mk"), ("c", "L", "Lv")]
DOCS_ALL = dict(DOCS, d6=DEEP_DOC, da=ALIAS_DOC)
DEEP_QUICK = [
    ("a", "b", "c", "i"), ("a", "b", "c", "1", "d", "j"), ("a", "b", "c", "1", "d", "Li"), ("X", "X", "X", "X", "X"),
    ("l", "4", "j", "1", "1", "s"), ("a", "x", "L", "L", "L", "i"),
]
DEEP_MORE = [
    ("M", "M", "M", "L"), ("a", "b", "c", "X", "d", "Xv"), ("X", "X", "X", "X", "X", "X"), ("l", "Li", "L", "L", "L", "Mk"),
    ("a", "b", "c", "Lie", "d", "4", "s"), ("l", "4", "Ll", "Ll", "Md", "b"), ("a", "b", "c", "i", "d", "j", "s"),
    ("X", "X", "c", "L", "d", "L"), ("l", "L", "L", "L", "L", "M"), ("a", "Md", "L", "L", "Ll", "Lv"),
]


def BOUNDS(ctx):
    return {
        "path skeletons": "lengths 1-%d (and a deep family of 4-7 parts over a six-level document with five-item lists) over part kinds: primitive str/int/bool (symbolic) and float (concrete 1.0/1.5), bare and "
                          "conditioned MapValue/ListValue/MapOrListValue (key/index/value conditions, and/or-combined, wrong-kind "
                          "conditions); see props/C03.py SHAPES" % (3 if ctx.quick else 4),
        "documents": "three 3-level skeletons (mapping root, list root, mapping with int/bool/float/None keys), leaves u1..u3 of "
                     "Union[int,bool,None,str]; mapping keys concrete",
        "symbolic": "document leaves, primitive str/int/bool parts, condition thresholds and keys; str len <= %d" % (2 if ctx.quick else 3),
        "outside": "paths longer than the bound, documents deeper than 3 levels (6 in the deep family), float primitive parts other than 1.0/1.5, "
                   "DataPathMultiType.ANY",
    }


SHAPES_QUICK = [
    # 1 part
    ("s",), ("i",), ("f1",), ("f15",), ("bl",), ("M",), ("L",), ("X",), ("Mk",), ("Mv",), ("Li",), ("Lv",), ("Xc",), ("Xv",),
    ("Lk",), ("Mi",), ("Mki",), ("Lxl",), ("Mxl",), ("Xxl",),
    # 2 parts
    ("a", "s"), ("l", "i"), ("a", "M"), ("l", "L"), ("M", "b"), ("M", "M"), ("L", "L"), ("X", "X"), ("X", "i"), ("Md", "b"),
    ("L", "Mk"), ("i", "j"), ("X", "Li"), ("Mnk", "X"), ("Mlen", "0"), ("s", "s2"), ("1", "M"), ("e", "L"), ("b", "M"),
    # 3 parts
    ("a", "c", "i"), ("M", "c", "Lv"), ("X", "X", "X"), ("l", "L", "s"), ("L", "M", "L"), ("X", "Xiv"), ("M", "L", "Mv"),
    ("i", "1", "j"), ("Mkv", "M", "0"), ("l", "Liv", "X"), ("l", "Lxl"), ("X", "Xxl"),
]
SHAPES_MORE = [
    ("T",), ("Mkv",), ("Liv",), ("Xiv",), ("Md",), ("Ll",), ("Mlen",), ("Mnk",), ("Lie",),
    ("s", "i"), ("i", "s"), ("M", "L"), ("L", "M"), ("X", "M"), ("X", "L"), ("Mv", "s"), ("Ll", "Li"), ("f1", "b"), ("T", "b"),
    ("Xc", "Xc"), ("Lk", "M"), ("M", "Mi"), ("l", "Lv"), ("a", "Mv"), ("bl", "b"),
    ("M", "M", "M"), ("L", "L", "L"), ("a", "c", "L"), ("l", "i", "s"), ("X", "L", "X"), ("M", "X", "i"), ("X", "i", "s"),
    ("Mk", "Mk", "i"), ("Md", "Ll", "0"),
    ("a", "c", "i", "s"), ("X", "X", "X", "X"), ("M", "L", "M", "b"), ("l", "L", "s", "i"), ("L", "M", "L", "i"), ("i", "j", "i", "j"),
]


def path_case(shape, docid, L, tag="", narrow=True):
    params, seen, parts = [], set(), []
    for p in shape:
        src, ps = PARTS[p]
        parts.append(src)
        for q in ps:
            if q[0] not in seen:
                seen.add(q[0])
                params.append(q)
    params += [("u1", U), ("u2", "int"), ("u3", "int")] if narrow else [("u1", U), ("u2", U), ("u3", U)]
    names = ", ".join(p[0] for p in params)
    body = f"""
PT = ({', '.join(parts)},)
doc = {DOCS_ALL[docid]}
path = build_path(PT)
got = path.get_data(doc, return_paths=True)
exp = ref_walk(PT, doc)
if path_is_concrete(PT):
    if len(exp) == 0:
        ok = note('absent concrete path gives None', got is None)
    else:
        ok = note('concrete path gives the single node', len(exp) == 1 and type(got) is tuple and got[0] is exp[0][0]) and same('concrete path', tx(got[1]), tx(exp[0][1]))
else:
    ok = note('non-concrete path gives a list', type(got) is list)
    ok = ok and same_objs('selected nodes', [g[0] for g in got], [e[0] for e in exp])
    ok = ok and same('concrete paths', tx([g[1] for g in got]), tx([e[1] for e in exp]))
return ok
"""
    return mk_case(f"c03.walk{tag}.{'/'.join(shape)}.{docid}", params, body, pre=[f"BU({L}, {names})"], stubs=["sym_repr"])


def entry_case(shape, docid, L):
    params, seen, parts = [], set(), []
    for p in shape:
        src, ps = PARTS[p]
        parts.append(src)
        for q in ps:
            if q[0] not in seen:
                seen.add(q[0])
                params.append(q)
    params += [("u1", U), ("u2", "int"), ("u3", "int")]
    names = ", ".join(p[0] for p in params)
    body = f"""
PT = ({', '.join(parts)},)
doc = {DOCS[docid]}
exp = ref_walk(PT, doc)
if path_is_concrete(PT):
    expv = exp[0][0] if exp else None
    def agree(got):
        return got is expv
else:
    def agree(got):
        return type(got) is list and len(got) == len(exp) and all(g is e[0] for g, e in zip(got, exp))
path = build_path(PT)
ok = note('DataPath.get_data(raw)', agree(path.get_data(doc)))
ok = ok and note('DataPath.get_data(Data(raw))', agree(path.get_data(Data(doc))))
ok = ok and note('Data.get(path)', agree(Data(doc).get(path)))
ok = ok and note('Data.get(*parts)', agree(Data(doc).get(*[build_part(p) for p in PT])))
bound = DataPath(*[build_part(p) for p in PT], source_data=doc)
ok = ok and note('DataPath(..., source_data=d).get_data()', agree(bound.get_data()))
return ok
"""
    return mk_case(f"c03.entry.{'/'.join(shape)}.{docid}", params, body, pre=[f"BU({L}, {names})"], stubs=["sym_repr"])


def cases(ctx):
    L = 2 if ctx.quick else 3
    out = []
    shapes = SHAPES_QUICK if ctx.quick else SHAPES_QUICK + SHAPES_MORE
    for i, sh in enumerate(shapes):
        if ctx.quick:
            # one document per shape in quick (rotating), chosen so that the first part can match
            first = sh[0]
            if first in ("i", "j", "L", "Li", "Lv", "Lk", "Ll", "Liv", "Lie", "0", "1", "Lxl") and len(sh) > 0:
                docid = "dl"
            elif first in ("f1", "f15", "T"):
                docid = "dk"
            elif first in ("bl", "Mki"):
                docid = "di"
            elif "Xiv" in sh:
                docid = "dl"
            elif first in ("X", "Xc", "Xv", "Xiv"):
                docid = ("dm", "dl", "di")[i % 3]
            else:
                docid = "dm"
            out.append(path_case(sh, docid, L))
        else:
            for docid in DOCS:
                symbolic_num = any(p in ("i", "j", "bl", "Mki", "Li", "Lie", "Liv", "Xc", "Xiv", "Mv", "Mkv", "Xv", "Mlen", "Mxl", "Xxl") for p in sh)
                if docid == "dk" and symbolic_num:
                    continue  # a float key against a symbolic int stalls z3: float keys meet concrete parts only
                out.append(path_case(sh, docid, L))
    # deep family: 4-7 parts over a six-level document with five-item lists
    for sh in (DEEP_QUICK if ctx.quick else DEEP_QUICK + DEEP_MORE):
        out.append(path_case(sh, "d6", L, tag="deep"))
    # part conditions whose comparison is undefined for some children in unusual ways (`%` on format-like strings raises ValueError /
    # TypeError / KeyError / OverflowError, modulo by zero): such a child is not selected, resolution goes on
    for n, (part, docsrc) in enumerate([
        ("('list', V('has_factor', 2))", "{'l': [u2, '100%', '%', '%d', 'abc', '5%', u3, None, [1], '%(a)s', '%c'], 'a': u1}"),
        ("('list', V('has_factor', -1))", "{'l': ['%c', u2, '%*d', '%s %s', u3], 'a': u1}"),
        ("('list', V('factor_of', 12))", "{'l': [u2, 0, 0.0, False, u3, '3', None, [4]], 'a': u1}"),
        ("('mol', NULL, NULL, ('or', V('has_factor', 3), V('is_instance', str)))", "{'l': ['100%', u2, '%', 9, u3], 'a': u1}"),
        ("('list', ('xor', V('has_factor', {}), V('truthy')))", "{'l': ['%(a)s', u2, '', '%d', u3], 'a': u1}"),
    ]):
        body = f"""
PT = (('prim', 'l'), {part})
doc = {docsrc}
got = build_path(PT).get_data(doc, return_paths=True)
exp = ref_walk(PT, doc)
ok = note('a list', type(got) is list) and same_objs('selected nodes', [g[0] for g in got], [e[0] for e in exp])
ok = ok and same('concrete paths', tx([g[1] for g in got]), tx([e[1] for e in exp]))
return ok
"""
        out.append(mk_case(f"c03.walk.undefined_in_part.{n}", [("u1", U), ("u2", "int"), ("u3", "int")], body, pre=[f"BU({L}, u1, u2, u3)"], stubs=["sym_repr"]))
    # aliased documents: the same container object under several branches
    for sh in (ALIAS_SHAPES[:5] if ctx.quick else ALIAS_SHAPES):
        out.append(path_case(sh, "da", L, tag="alias"))
    # the empty path
    body = """
doc = [u1, {'a': u2}]
got = DataPath().get_data(doc, return_paths=True)
ok = note('empty path selects the document itself', type(got) is tuple and got[0] is doc and got[1] == ())
ok = ok and note('Data.get()', Data(doc).get() is not None and Data(doc).get() == doc)
return ok
"""
    out.append(mk_case("c03.walk.empty", [("u1", U), ("u2", U)], body, pre=[f"BU({L}, u1, u2)"]))
    # history: a path resolves the same whatever paths were built before it in the process
    # (int / float / bool primitive parts that compare equal must keep their own part kind)
    for n, (first, second) in enumerate([("2.0", "2"), ("2", "2.0"), ("True", "1"), ("1", "True"), ("1.0", "1"), ("0", "False"), ("0.0", "0"), ("1", "1.0"),
                                         ("1.0", "True"), ("True", "1.0"), ("0.0", "False"), ("False", "0.0")]):
        body = f"""
doc = {{'l': [u1, u2, 5], 'm': {{2: u1, 1: u2, 0: 7}}}}
before = DataPath('l', {first}), DataPath('m', {first})
ok = True
for root in ('l', 'm'):
    for prim in ({first}, {second}):
        PT = (('prim', root), ('prim', prim))
        got = DataPath(root, prim).get_data(doc, return_paths=True)
        exp = ref_walk(PT, doc)
        if exp:
            ok = ok and note('selected node', got is not None and got[0] is exp[0][0]) and same('path', tx(got[1]), tx(exp[0][1]))
        else:
            ok = ok and note('absent', got is None)
        expv = exp[0][0] if exp else None
        ok = ok and note('Data.get(*bare parts)', Data(doc).get(root, prim) is expv)
        ok = ok and note('get_data without paths', DataPath(root, prim).get_data(doc) is expv)
        ok = ok and note('Data.get(*bare parts) on one shared Data object', shared.get(root, prim) is expv)
        ok = ok and note('... and from its root list', Data(doc['l']).get(prim) is (doc['l'][prim] if type(prim) is not float and 0 <= prim < 3 else None))
        ok = ok and note('shared list Data', shared_l.get(prim) is (doc['l'][prim] if type(prim) is not float and 0 <= prim < 3 else None))
return ok
"""
        body = body.replace("ok = True\nfor root in", "shared, shared_l = Data(doc), Data(doc['l'])\nok = True\nfor root in")
        out.append(mk_case(f"c03.history.{n}", [("u1", U), ("u2", "int")], body, pre=[f"BU({L}, u1, u2)"], stubs=["sym_repr"]))
    # documents whose containers are instances of dict / list subclasses (OrderedDict, defaultdict, a user subclass), at the
    # root and mid-path: they are mappings / lists like any other
    body = """
import collections
class Seq(list):
    pass
inner = collections.OrderedDict([('b', Seq([10, u1, 30])), ('k', u2)])
doc = collections.OrderedDict([('a', inner), ('c', Seq([{'x': 1}, collections.defaultdict(int, {'x': u2})])), ('d', collections.defaultdict(list, {'y': [u1]}))])
ok = True
for PT in ((('prim', 'a'), ('prim', 'b')), (('prim', 'a'), ('prim', 'b'), ('prim', i)), (('prim', 'c'), ('list', NULL), ('prim', 'x')), (('map', NULL),),
           (('mol', NULL, NULL, NULL), ('mol', NULL, NULL, NULL)), (('prim', 'd'), ('map', NULL), ('list', IX('less_than', i))), (('prim', 'c'), ('prim', 1))):
    exp = ref_walk(PT, doc)
    path = build_path(PT)
    got = path.get_data(doc, return_paths=True)
    if path_is_concrete(PT):
        got = [got] if got is not None else []
    ok = ok and note('selected nodes', len(got) == len(exp) and all(g[0] is e[0] for g, e in zip(got, exp)))
    ok = ok and same('concrete paths', tx([tuple(g[1]) for g in got]), tx([e[1] for e in exp]))
    for label, vals in (('wrapped data agrees', path.get_data(Data(doc))), ('bare parts agree', Data(doc).get(*[build_part(p) for p in PT]))):
        if path_is_concrete(PT):
            ok = ok and note(label, vals is (exp[0][0] if exp else None))
        else:
            ok = ok and note(label, len(vals) == len(exp) and all(g is e[0] for g, e in zip(vals, exp)))
return ok
"""
    out.append(mk_case("c03.walk.container_subclasses", [("i", "int"), ("u1", U), ("u2", "int")], body, pre=[f"BU({L}, i, u1, u2)"], stubs=["sym_repr"]))
    # every entry point, with and without paths, for a symbolic (possibly negative / out of range) int part
    body = """
doc = {'xs': [u1, u2, 5], 'm': {-1: u1, 2: u2}, 'n': [[u2, 7], {'x': [u1]}]}
ok = True
for parts in (('xs', i), ('m', i), ('n', i, 0), ('n', 0, i), ('n', i, 'x', 0)):
    PT = tuple(('prim', p) for p in parts)
    exp = ref_walk(PT, doc)
    expv = exp[0][0] if exp else None
    ok = ok and note('get_data(raw)', DataPath(*parts).get_data(doc) is expv)
    ok = ok and note('Data.get(*parts)', Data(doc).get(*parts) is expv)
    ok = ok and note('Data.get(path)', Data(doc).get(DataPath(*parts)) is expv)
    ok = ok and note('bound path', DataPath(*parts, source_data=doc).get_data() is expv)
    wp = DataPath(*parts).get_data(doc, return_paths=True)
    ok = ok and note('with paths', (wp is None and not exp) or (wp is not None and len(exp) == 1 and wp[0] is expv and tx(wp[1]) == tx(exp[0][1])))
return ok
"""
    out.append(mk_case("c03.entry.symbolic_int_everywhere", [("i", "int"), ("u1", U), ("u2", "int")], body, pre=[f"BU({L}, i, u1, u2)"], stubs=["sym_repr"]))
    for sh, d in [(("a", "c", "i"), "dm"), (("M", "c", "Lv"), "dm"), (("X", "X"), "dl"), (("i", "1", "j"), "dl"), (("Mk",), "dm"),
                  (("l", "L", "s"), "dm"),
                  # a MapOrListValue whose key and index conditions differ (DataPath.simplify() collapses it to the index alone)
                  (("Xc",), "dm"), (("Xc",), "dl"), (("a", "Xc"), "dm"), (("l", "Xc"), "dm")] + ([] if ctx.quick else [(("X", "Xiv", "b"), "dm"), (("L", "M", "L"), "dl"), (("f1", "b"), "dk")]):
        out.append(entry_case(sh, d, L))
    return out
