"""C14 - equality is an equivalence relation that implies identical behaviour."""
from engine.runner import mk_case

U = "Union[int, bool, None, str]"
BOUNDS = {
    "ints": "mathematical integers, -2**63 <= i < 2**63",
    "str atoms": "len <= 2 (quick) / 3 (thorough)",
    "probe documents": "1-2 leaves of Union[int,bool,None,str] under concrete keys; cast strings concrete",
    "term kinds (enumerated)": "leaf x7 classes, and/or/xor combination, MapValue/ListValue/MapOrListValue parts, "
                               "primitive int/str path parts, DataPath incl. modifiers, Rule incl. cast, Schema",
    "outside": "labels have no behaviour (only the relation laws are checked for them); float atoms concrete",
}

LAWS = """
e_xy = (x == y)
e_yx = (y == x)
ok = note('reflexive x', x == x) and note('reflexive y', y == y) and note('symmetric', e_xy == e_yx)
"""


def pair_case(cid, params, pre, build_x, build_y, behaviour, budget=None, stubs=(), known=None):
    """x, y built from atoms; if x == y then behaviour(x) == behaviour(y) on the probe doc."""
    body = f"""
x = {build_x}
y = {build_y}
{LAWS}
if e_xy:
    ok = ok and same('behaviour of equal objects', {behaviour.replace('OBJ', 'x')}, {behaviour.replace('OBJ', 'y')})
return ok
"""
    return mk_case(cid, params, body, pre=pre, budget=budget, stubs=stubs, known=known)


def triple_case(cid, params, pre, build, budget=None):
    """transitivity over x(a), x(b), x(c); `build` uses ATOM as the hole."""
    body = f"""
x = {build.replace('ATOM', 'a')}
y = {build.replace('ATOM', 'b')}
z = {build.replace('ATOM', 'c')}
ok = True
if x == y and y == z:
    ok = note('transitive', x == z)
if a == b:
    ok = ok and note('rebuilt copies compare equal', x == y)
return ok
"""
    return mk_case(cid, params, body, pre=pre, budget=budget)


def cases(ctx):
    L = 2 if ctx.quick else 3
    out = []
    ii = [("a", "int"), ("b", "int"), ("u", U)]
    ipre = ["I64(a, b)", f"len(u) <= {L} if isinstance(u, str) else (I64(u) if isinstance(u, int) else True)"]
    ss = [("a", "str"), ("b", "str"), ("u", U)]
    spre = [f"len(a) <= {L} and len(b) <= {L}", f"len(u) <= {L} if isinstance(u, str) else (I64(u) if isinstance(u, int) else True)"]

    # ---- leaves: same callable, one atom differs
    leaf_beh = "OBJ.filter([u, 0, 'a']).result"
    for name in ["equal_to", "not_equal_to", "less_than", "greater_than_or_equal_to"]:
        out.append(pair_case(f"c14.leaf.value.{name}.int", ii, ipre, f"Value.{name}(a)", f"Value.{name}(b)", leaf_beh))
    out.append(pair_case("c14.leaf.value.equal_to.str", ss, spre, "Value.equal_to(a)", "Value.equal_to(b)", leaf_beh))
    out.append(pair_case("c14.leaf.value.in_.list", ii, ipre, "Value.in_([a, 1])", "Value.in_([b, 1])", leaf_beh))
    out.append(pair_case("c14.leaf.value.in_range", ii, ipre, "Value.in_range(a, 5)", "Value.in_range(b, 5)",
                         "OBJ.filter([u if isinstance(u, int) else 0, 0]).result"))
    out.append(pair_case("c14.leaf.length.equal_to", ii, ipre, "Value.length.equal_to(a)", "Value.length.equal_to(b)", "OBJ.filter([u, 'ab', [1]]).result"))
    out.append(pair_case("c14.leaf.index.equal_to", ii, ipre, "Index.equal_to(a)", "Index.equal_to(b)", "OBJ.filter([u, 0]).result"))
    out.append(pair_case("c14.leaf.key.equal_to", ss, spre, "Key.equal_to(a)", "Key.equal_to(b)", "OBJ.filter({'k': u, 'j': 0, '': 1}).result"))
    # ---- leaves: callable / class changed by enumeration, atom symbolic on both sides
    pp = [("k1", "str"), ("k2", "str"), ("u", U)]
    ppre = ["k1 in ('k', 'j') and k2 in ('k', 'j')", f"BU({L}, u)"]
    kdoc = "OBJ.filter([{'k': u, 'z': 0}, {'j': 1}, {'k': 0, 'j': 1}, u]).result"
    for nm in ["keys_contain_one_of", "keys_contain_any_of", "keys_contain_all_of", "keys_equal_to", "allowed_keys", "required_keys", "forbidden_keys"]:
        out.append(pair_case(f"c14.leaf.varpos.dup.{nm}", pp, ppre, f"Value.{nm}(k1, k1)", f"Value.{nm}(k2)", kdoc))
        out.append(pair_case(f"c14.leaf.varpos.order.{nm}", pp, ppre, f"Value.{nm}(k1, 'z')", f"Value.{nm}('z', k2)", kdoc))
    out.append(pair_case("c14.leaf.varpos.dup.bool_int", [("u", U)], [f"BU({L}, u)"], "Value.keys_contain_one_of(1, True)", "Value.keys_contain_one_of(1)",
                         "OBJ.filter([{1: u}, {True: 0, 2: 1}, u]).result"))
    out.append(pair_case("c14.leaf.varpos.dup.classes", [("u", U)], [f"BU({L}, u)"], "Value.is_instance(int, int)", "Value.is_instance(int, bool)", leaf_beh))
    out.append(pair_case("c14.leaf.callable_changed", ii, ipre, "Value.less_than(a)", "Value.greater_than(b)", leaf_beh))
    out.append(pair_case("c14.leaf.alias", ii, ipre, "Value.lt(a)", "Value.less_than(b)", leaf_beh))
    out.append(pair_case("c14.leaf.preproc_changed", ii, ipre, "Value.length.equal_to(a)", "Value.equal_to(b)", "OBJ.filter([u, 'ab', [1], 2]).result"))
    out.append(pair_case("c14.leaf.kind_changed", ii, ipre, "Key.equal_to(a)", "Value.equal_to(b)", "OBJ.filter({0: u, 1: 0, 'k': 1}).result"))
    out.append(pair_case("c14.leaf.null_vs_null_callable", [("u", U)], ipre[1:], "NullCondition()", "Value.null()", "OBJ.filter([u, 0]).result"))
    # union-typed atoms: the solver picks the argument types as well
    uu = [("a", U), ("b", U), ("u", U)]
    upre = [f"all((len(v) <= {L} if isinstance(v, str) else (I64(v) if isinstance(v, int) else True)) for v in (a, b, u))"]
    out.append(pair_case("c14.leaf.value.equal_to.union", uu, upre, "Value.equal_to(a)", "Value.equal_to(b)", leaf_beh, budget=None if ctx.quick else 300))
    # ---- combinations: commuted operands compare equal and behave alike
    for op, sym in (("and", "&"), ("or", "|"), ("xor", "^")):
        body = f"""
p = Value.greater_than(a)
q = Value.less_than(b)
x = p {sym} q
y = Value.less_than(b) {sym} Value.greater_than(a)
{LAWS}
ok = ok and note('commuted operands compare equal', e_xy)
ok = ok and same('behaviour', x.filter([u, 0]).result, y.filter([u, 0]).result)
z = Value.greater_than(c) {sym} Value.less_than(b)
if x == z:
    ok = ok and same('behaviour of equal combinations', x.filter([u, 0]).result, z.filter([u, 0]).result)
return ok
"""
        out.append(mk_case(f"c14.comb.{op}.commuted", [("a", "int"), ("b", "int"), ("c", "int"), ("u", U)],
                           body, pre=["I64(a, b, c)"] + ipre[1:]))
    for op, sym in (("and", "&"), ("or", "|"), ("xor", "^")):
        out.append(pair_case(f"c14.comb.{op}.repeated_operand", ii, ipre, f"Value.greater_than(a) {sym} Value.greater_than(a)",
                             f"Value.greater_than(a) {sym} Value.less_than(b)", leaf_beh))
        out.append(pair_case(f"c14.comb.{op}.repeated_operand.rhs", ii, ipre, f"Value.greater_than(a) {sym} Value.less_than(b)",
                             f"Value.less_than(b) {sym} Value.less_than(b)", leaf_beh))
        out.append(pair_case(f"c14.comb.{op}.repeated_vs_single", ii, ipre, f"Value.greater_than(a) {sym} Value.greater_than(a)",
                             f"Value.greater_than(b)", leaf_beh))
    out.append(pair_case("c14.comb.op_changed", ii, ipre, "Value.greater_than(a) & Value.less_than(5)",
                         "Value.greater_than(b) | Value.less_than(5)", leaf_beh))
    out.append(pair_case("c14.comb.nested", ii, ipre, "(Value.greater_than(a) & Value.less_than(5)) | Value.equal_to(7)",
                         "Value.equal_to(7) | (Value.less_than(5) & Value.greater_than(b))", leaf_beh))
    # ---- three leaves under two different operators: re-grouping / re-distributing the leaves gives a different predicate
    iii = [("a", "int"), ("b", "int"), ("c", "int"), ("u", U)]
    iiipre = ["I64(a, b, c)"] + ipre[1:]
    SYM = {"and": "&", "or": "|", "xor": "^"}
    for o1 in SYM:
        for o2 in SYM:
            if o1 == o2:
                continue
            P_, Q_, R_ = "Value.greater_than(a)", "Value.less_than(b)", "Value.equal_to(c)"
            out.append(pair_case(f"c14.comb.regroup.{o1}.{o2}.swap_leaves", iii, iiipre, f"({P_} {SYM[o1]} {Q_}) {SYM[o2]} {R_}",
                                 f"({P_} {SYM[o1]} {R_}) {SYM[o2]} {Q_}", leaf_beh))
            out.append(pair_case(f"c14.comb.regroup.{o1}.{o2}.reassociate", iii, iiipre, f"({P_} {SYM[o1]} {Q_}) {SYM[o2]} {R_}",
                                 f"{P_} {SYM[o1]} ({Q_} {SYM[o2]} {R_})", leaf_beh))
    out.append(pair_case("c14.comb.regroup.in_part", iii, iiipre, "ListValue(value=(Value.greater_than(a) & Value.less_than(b)) | Value.equal_to(c))",
                         "ListValue(value=(Value.greater_than(a) & Value.equal_to(c)) | Value.less_than(b))", "OBJ.filter([u, 0, -5, 7]).keys"))
    out.append(pair_case("c14.comb.regroup.in_rule", iii, iiipre, "Rule(('xs', ListValue()), (Value.greater_than(a) | Value.less_than(b)) & Value.equal_to(c))",
                         "Rule(('xs', ListValue()), (Value.greater_than(a) | Value.equal_to(c)) & Value.less_than(b))",
                         "summarize_test(OBJ.test({'xs': [u, 0, -5, 7]}))", stubs=["sym_repr"]))
    # ---- parts
    mdoc = "{'k': u, 0: 1, 1: 'v', True: 2}" if False else "{'k': u, 0: 1, 1: 'v'}"
    part_beh_m = f"OBJ.filter({mdoc}).keys"
    part_beh_l = "OBJ.filter([u, 1, 'v']).keys"
    out.append(pair_case("c14.part.map.key.str", ss, spre, "MapValue(key=a)", "MapValue(key=b)", "OBJ.filter({'k': u, 'j': 1, '': 2}).keys"))
    out.append(pair_case("c14.part.map.key.int", ii, ipre, "MapValue(key=a)", "MapValue(key=b)", part_beh_m))
    out.append(pair_case("c14.part.map.value", ii, ipre, "MapValue(value=Value.gt(a))", "MapValue(value=Value.gt(b))", part_beh_m))
    out.append(pair_case("c14.part.list.index", ii, ipre, "ListValue(index=a)", "ListValue(index=b)", part_beh_l))
    out.append(pair_case("c14.part.list.value", ii, ipre, "ListValue(value=a)", "ListValue(value=b)", part_beh_l))
    out.append(pair_case("c14.part.mol.index", ii, ipre, "MapOrListValue(key=0, index=a)", "MapOrListValue(key=0, index=b)", part_beh_l))
    out.append(pair_case("c14.part.mol.key", ii, ipre, "MapOrListValue(key=a, index=0)", "MapOrListValue(key=b, index=0)", part_beh_m))
    out.append(pair_case("c14.part.mol.value", ii, ipre, "MapOrListValue(value=Value.gt(a))", "MapOrListValue(value=Value.gt(b))", part_beh_l))
    out.append(pair_case("c14.part.mol.list_condition", ii, ipre, "MapOrListValue(list_condition=Index.lt(a))", "MapOrListValue(list_condition=Index.lt(b))", part_beh_l))
    out.append(pair_case("c14.part.mol.map_condition", ii, ipre, "MapOrListValue(map_condition=Key.equal_to(a))", "MapOrListValue(map_condition=Key.equal_to(b))", part_beh_m))
    out.append(pair_case("c14.part.kind_changed.map_list", ii, ipre, "MapValue(value=Value.gt(a))", "ListValue(value=Value.gt(b))", part_beh_l.replace("OBJ.filter(", "DataPath(OBJ).get_data(").replace(".keys", "")))
    out.append(pair_case("c14.part.kind_changed.mol_map", ii, ipre, "MapOrListValue(value=Value.gt(a))", "MapValue(value=Value.gt(b))", part_beh_l.replace("OBJ.filter(", "DataPath(OBJ).get_data(").replace(".keys", "")))
    out.append(pair_case("c14.part.label", ss, spre, "MapValue(key='k', label=a)", "MapValue(key='k', label=b)", "OBJ.filter({'k': u, 'j': 1}).keys"))
    rule_beh_early = "(lambda t: (t.is_valid, t.tested, t.num_failures))(OBJ.test({'x': [u, 1, 2], 's': 'true'}))"
    # ---- paths
    pdoc2 = "{'x': [u, 1, 2], 'y': {0: 5, 1: 6}}"
    path_beh = f"OBJ.get_data({pdoc2}, return_paths=True)"
    out.append(pair_case("c14.path.int_part", ii, ipre, "DataPath('x', a)", "DataPath('x', b)", path_beh))
    out.append(pair_case("c14.path.int_part.mapdoc", ii, ipre, "DataPath('y', a)", "DataPath('y', b)", path_beh))
    out.append(pair_case("c14.path.str_part", ss, spre, "DataPath(a, 0)", "DataPath(b, 0)", path_beh))
    out.append(pair_case("c14.path.first_int_part", ii, ipre, "DataPath(a)", "DataPath(b)", "OBJ.get_data([u, 1, 2], return_paths=True)"))
    out.append(pair_case("c14.path.bool_vs_int_part", [("a", "int"), ("b", "bool"), ("u", U)], ["I64(a)"] + ipre[1:], "DataPath('x', a)", "DataPath('x', b)", path_beh))
    out.append(pair_case("c14.path.part_kind.map_vs_mol", ii, ipre, "DataPath('x', MapValue(key=a))", "DataPath('x', MapOrListValue(key=b, index=b))", path_beh))
    out.append(pair_case("c14.path.part_kind.map_vs_int", ii, ipre, "DataPath('x', MapValue(key=a))", "DataPath('x', b)", path_beh))
    out.append(pair_case("c14.path.part_kind.list_vs_mol", ii, ipre, "DataPath('y', ListValue(index=a))", "DataPath('y', MapOrListValue(key=b, index=b))", path_beh))
    out.append(pair_case("c14.path.mol.key_differs", ii, ipre, "DataPath('y', MapOrListValue(key=a, index=0))", "DataPath('y', MapOrListValue(key=b, index=0))", path_beh))
    out.append(pair_case("c14.path.mol.index_differs", ii, ipre, "DataPath('x', MapOrListValue(key=0, index=a))", "DataPath('x', MapOrListValue(key=0, index=b))", path_beh))
    out.append(pair_case("c14.path.label", ss, spre, "DataPath('x', MapValue(key='k', label=a))", "DataPath('x', MapValue(key='k', label=b))", path_beh))
    out.append(pair_case("c14.rule.part_kind", ii, ipre, "Rule(('x', MapValue(key=a)), Value.equal_to(1))", "Rule(('x', b), Value.equal_to(1))", rule_beh_early, stubs=["cond_repr"]))
    out.append(pair_case("c14.path.length_changed", ii, ipre, "DataPath('x', a)", "DataPath('x')", path_beh))
    out.append(pair_case("c14.path.cond_part", ii, ipre, "DataPath('x', ListValue(value=Value.gt(a)))", "DataPath('x', ListValue(value=Value.gt(b)))", path_beh))
    for mod in ["length", "dtype", "map_keys", "map_values"]:
        out.append(pair_case(f"c14.path.datum_mod.{mod}", ii, ipre, f"DataPath('y').{mod}()", "DataPath('y')" if mod != "dtype" else "DataPath('y').length()", path_beh))
    # history: compare first (anything memoised by == must not go stale), then derive with a modifier, then compare again
    for mod in ["first", "last", "single", "all", "length", "dtype", "map_keys"]:
        body = f"""
p = DataPath(MapValue(value=Value.is_instance(dict, list, str)))
fresh = DataPath(MapValue(value=Value.is_instance(dict, list, str)))
ok = note('base equals itself and a rebuilt copy', p == p and p == fresh and fresh == p)
q = p.{mod}()
rebuilt_q = DataPath(MapValue(value=Value.is_instance(dict, list, str))).{mod}()
doc = {{'x': [a, 1], 'y': {{'k': u}}, 'z': u}}
for x, y in ((q, p), (p, q), (q, fresh), (q, rebuilt_q), (rebuilt_q, q)):
    if x == y:
        ok = ok and same('equal paths select alike', outcome(lambda: x.get_data(doc)), outcome(lambda: y.get_data(doc)))
ok = ok and note('a derived path equals a separately built copy of it', q == rebuilt_q and rebuilt_q == q)
ok = ok and note('symmetric', (q == p) == (p == q))
return ok
"""
        out.append(mk_case(f"c14.path.history.{mod}", [("a", "int"), ("u", U)], body, pre=[f"BU({L}, a, u)"], stubs=["sym_repr"]))
    for mod in ["first", "last", "all", "single"]:
        out.append(pair_case(f"c14.path.multi_mod.{mod}", ii, ipre, f"DataPath(MapValue()).{mod}()", "DataPath(MapValue())" if mod != "last" else "DataPath(MapValue()).first()", "OBJ.get_data({'x': u, 'y': a})"))
    # ---- rules
    rdoc = "{'x': [u, 1, 2], 's': 'true'}"
    rule_beh = f"(lambda t: (t.is_valid, t.tested, t.num_failures))(OBJ.test({rdoc}))"
    out.append(pair_case("c14.rule.cond_atom", ii, ipre, "Rule(('x', 0), Value.equal_to(a))", "Rule(('x', 0), Value.equal_to(b))", rule_beh, stubs=["cond_repr"]))
    out.append(pair_case("c14.rule.path_atom", ii, ipre, "Rule(('x', a), Value.equal_to(1))", "Rule(('x', b), Value.equal_to(1))", rule_beh, stubs=["cond_repr"]))
    out.append(pair_case("c14.rule.cast_changed", [("a", "bool"), ("b", "bool")], [],
                         "Rule(('s',), Value.equal_to(a), cast={str: valida.casting.cast_string_to_bool})",
                         "Rule(('s',), Value.equal_to(b))", rule_beh.replace("u", "0").replace("OBJ.test({'x': [0, 1, 2], 's': 'tr0e'})", "OBJ.test({'x': [0, 1, 2], 's': 'true'})"), stubs=["cond_repr"]))
    out.append(pair_case("c14.rule.cast_target_changed", [("a", "int"), ("b", "int")], ["I64(a, b)"],
                         "Rule(('s',), Value.equal_to(a), cast={str: int})",
                         "Rule(('s',), Value.equal_to(b), cast={str: valida.casting.cast_string_to_bool})",
                         "(lambda t: (t.is_valid, t.tested, t.num_failures))(OBJ.test({'s': '1', 't': 'true'}))", stubs=["cond_repr"]))
    # ---- schemas
    sch_beh = f"(lambda t: (t.is_valid, t.num_failures, t.num_rules_tested))(OBJ.validate({rdoc}))"
    out.append(pair_case("c14.schema.cond_atom", ii, ipre, "Schema([Rule(('x', 0), Value.equal_to(a)), Rule(('s',), Value.truthy())])",
                         "Schema([Rule(('x', 0), Value.equal_to(b)), Rule(('s',), Value.truthy())])", sch_beh, stubs=["cond_repr"]))
    out.append(pair_case("c14.schema.rule_dropped", ii, ipre, "Schema([Rule(('x', 0), Value.equal_to(a)), Rule(('s',), Value.falsy())])",
                         "Schema([Rule(('x', 0), Value.equal_to(b))])", sch_beh, stubs=["cond_repr"]))
    # leaves, combinations, rules with a data-path argument: paths that print alike but differ in concreteness / modifiers /
    # binding are different arguments (verdicts through a rule, where the argument is resolved)
    pa_beh = "(lambda t: (t.is_valid, t.tested, t.num_failures))(Rule(('x',), OBJ).test({'x': u, 'a': u, 'b': [u]}))"
    iu1 = [("a", "int"), ("u", "Union[int, bool, None]")]
    pre1 = [f"BU({L}, a, u)"]
    PA = "Value.equal_to(DataPath('a'))"
    PB = "Value.equal_to(DataPath(MapValue('a')))"
    for op, sym in (("and", "&"), ("or", "|"), ("xor", "^")):
        out.append(pair_case(f"c14.patharg.concreteness.{op}", iu1, pre1, f"Value.is_instance(int) {sym} {PA}", f"Value.is_instance(int) {sym} {PB}", pa_beh))
        out.append(pair_case(f"c14.patharg.concreteness.{op}.commuted", iu1, pre1, f"{PA} {sym} Value.is_instance(int)", f"Value.is_instance(int) {sym} {PB}", pa_beh))
        out.append(pair_case(f"c14.patharg.concreteness.{op}.chain", iu1, pre1, f"(Value.is_instance(int) {sym} {PA}) {sym} Value.less_than(a)",
                             f"(Value.less_than(a) {sym} {PB}) {sym} Value.is_instance(int)", pa_beh))
        out.append(pair_case(f"c14.patharg.modifier.{op}", iu1, pre1, f"Value.is_instance(int) {sym} Value.equal_to(DataPath('b'))",
                             f"Value.is_instance(int) {sym} Value.equal_to(DataPath('b').length())", pa_beh))
    out.append(pair_case("c14.patharg.concreteness.leaf", iu1, pre1, PA, PB, pa_beh))
    out.append(pair_case("c14.patharg.bound.leaf", iu1, pre1, "Value.equal_to(DataPath('a'))", "Value.equal_to(DataPath('a', source_data={'a': a}))", pa_beh))
    out.append(pair_case("c14.patharg.bound.and", iu1, pre1, "Value.is_instance(int) & Value.equal_to(DataPath('a'))",
                         "Value.is_instance(int) & Value.equal_to(DataPath('a', source_data={'a': a}))", pa_beh))
    # equality of leaves compares arguments with ==, so an int and an equal float argument give equal conditions; where the
    # callable is sensitive to the number's type (range() needs ints) equal conditions then behave differently
    out.append(pair_case("c14.leaf.in_range.float_bound", [("a", "int"), ("u", "int")], ["I64(a, u) and 0 <= 5 - a <= 3"], "Value.in_range(a, 5)", "Value.in_range(a, 5.0)",
                         "OBJ.filter([u, 4]).result", known="C14-eq-ignores-number-type"))
    out.append(pair_case("c14.leaf.not_in_range.float_bound", [("a", "int"), ("u", "int")], ["I64(a, u) and 0 <= 5 - a <= 3"], "Value.not_in_range(a, 5)", "Value.not_in_range(a, 5.0)",
                         "OBJ.filter([u, 9]).result", known="C14-eq-ignores-number-type"))
    # the same rules in another order (ties in path length keep the given order; with casts a later rule sees the
    # values an earlier one cast): if such schemas compare equal they must judge alike
    cast_beh = "(lambda t: (t.is_valid, t.num_failures, t.num_rules_tested, tx(t.cast_data)))(OBJ.validate({'a': '5', 'b': u, 'c': 'x'}))"
    R1 = "Rule(('a',), Value.dtype.equal_to(int), cast={str: int})"
    R2 = "Rule(('b',), Value.equal_to(DataPath('a')), cast={str: int})"
    R3 = "Rule(('c',), Value.equal_to(a))"
    iu2 = [("a", "int"), ("u", "Union[int, bool, None]")]
    out.append(pair_case("c14.schema.rule_order.casts", iu2, [f"BU({L}, a, u)"], f"Schema([{R1}, {R2}])", f"Schema([{R2}, {R1}])", cast_beh, stubs=["cond_repr"]))
    out.append(pair_case("c14.schema.rule_order.casts3", iu2, [f"BU({L}, a, u)"], f"Schema([{R3}, {R1}, {R2}])", f"Schema([{R2}, {R3}, {R1}])", cast_beh, stubs=["cond_repr"]))
    out.append(pair_case("c14.schema.rule_order.same", iu2, [f"BU({L}, a, u)"], f"Schema([{R1}, {R2}, {R3}])", f"Schema([{R1}, {R2}, {R3}])",
                         cast_beh + " if OBJ == Schema([" + f"{R1}, {R2}, {R3}" + "]) else None", stubs=["cond_repr"]))
    if not ctx.quick:
        from engine import terms as _t
        one_arg = ["equal_to", "not_equal_to", "less_than", "greater_than", "less_than_or_equal_to", "greater_than_or_equal_to",
                   "factor_of", "has_factor", "eq", "lt", "gt", "lte", "gte"]
        for kind, pre in _t.CLASSES:
            cls = {("value", None): "Value", ("value", "length"): "Value.length", ("value", "dtype"): "Value.dtype", ("key", None): "Key",
                   ("key", "length"): "Key.length", ("key", "dtype"): "Key.dtype", ("index", None): "Index"}[(kind, pre)]
            probe = {"value": "OBJ.filter([u, 0, 6, [1]]).result", "key": "OBJ.filter({3: u, 2: 0, 0: 1, None: 2}).result", "index": "OBJ.filter([u, 0, 'a']).result"}[kind]
            iu = [("a", "int"), ("b", "int"), ("u", "Union[int, bool, None]")]
            for nm in one_arg:
                out.append(pair_case(f"c14.all.{kind}{'.' + pre if pre else ''}.{nm}", iu, ["I64(a, b)", "BU(3, u)"], f"{cls}.{nm}(a)", f"{cls}.{nm}(b)", probe))
            out.append(pair_case(f"c14.all.{kind}{'.' + pre if pre else ''}.in_", iu, ["I64(a, b)", "BU(3, u)"], f"{cls}.in_([a, 1])", f"{cls}.in_([1, b])", probe))
            out.append(pair_case(f"c14.all.{kind}{'.' + pre if pre else ''}.in_range", iu, ["I64(a, b)", "BU(3, u)", "0 <= 5 - a <= 3 and 0 <= 5 - b <= 3"], f"{cls}.in_range(a, 5)", f"{cls}.in_range(b, 5)", probe))
            out.append(pair_case(f"c14.all.{kind}{'.' + pre if pre else ''}.approx", iu, ["I64(a, b)", "BU(3, u)"], f"{cls}.equal_to_approx(a, 2)", f"{cls}.equal_to_approx(b, 2)", probe))
    # ---- a list argument vs a tuple argument with the same items: where the callable compares the datum with the whole argument
    # ([1, 2] != (1, 2)) the two conditions behave differently, so they may only compare equal where they behave alike
    lt_doc = "OBJ.filter([[a, 2], [b, 2], u, [2], []]).result"
    for nm in ["equal_to", "not_equal_to", "less_than", "greater_than_or_equal_to", "in_", "not_in"]:
        out.append(pair_case(f"c14.leaf.list_vs_tuple.{nm}", ii, ipre, f"Value.{nm}([a, 2])", f"Value.{nm}((b, 2))", lt_doc if nm not in ("in_", "not_in") else "OBJ.filter([a, b, 2, u]).result"))
    out.append(pair_case("c14.leaf.list_vs_tuple.in_.nested", ii, ipre, "Value.in_([[a, 2], 0])", "Value.in_([(b, 2), 0])", lt_doc))
    out.append(pair_case("c14.leaf.list_vs_tuple.items_contain", ii, ipre, "Value.items_contain(k=[a, 2])", "Value.items_contain(k=(b, 2))", "OBJ.filter([{'k': [a, 2]}, {'k': [b, 2]}, u]).result"))
    out.append(pair_case("c14.part.list_vs_tuple", ii, ipre, "DataPath(MapValue(value=Value.equal_to([a, 2])))", "DataPath(MapValue(value=Value.equal_to((b, 2))))",
                         "tx(OBJ.get_data({'p': [a, 2], 'q': [b, 2], 'r': u}, return_paths=True))", stubs=["sym_repr"]))
    out.append(pair_case("c14.rule.list_vs_tuple", ii, ipre, "Rule(('p',), Value.not_equal_to([a, 2]))", "Rule(('p',), Value.not_equal_to((b, 2)))",
                         "OBJ.test({'p': [a, 2], 'r': u}).is_valid", stubs=["sym_repr"]))
    # ---- equality does not depend on what the objects have been used for: a schema / rule / path / condition that has validated,
    # tested, resolved or filtered documents still equals a separately built copy (both ways), before and after the copy is used too
    for cid, build, use in [
        ("schema", "Schema([Rule(('p',), Value.greater_than(a)), Rule(('q', ListValue()), Value.not_equal_to(b), cast={str: int})])", "OBJ.validate({'p': u, 'q': [a, '3', b]})"),
        ("rule", "Rule(('q', ListValue()), Value.not_equal_to(b) | Value.less_than(DataPath('p')), cast={str: int})", "OBJ.test({'p': a, 'q': [u, '3', b]})"),
        ("path", "DataPath('q', ListValue(value=Value.greater_than(a))).length()", "OBJ.get_data({'q': [[u], 'ab', [b, 2]]}, return_paths=True)"),
        ("cond", "(Value.greater_than(a) | Value.equal_to(b)) & Value.is_instance(int)", "OBJ.filter([u, a, b])"),
    ]:
        body = f"""
x = {build}
y = {build}
ok = note('fresh copies compare equal', x == y and y == x)
r1 = {use.replace('OBJ', 'x')}
ok = ok and note('a used object equals a fresh copy, both ways', x == y and y == x and x == x)
r2 = {use.replace('OBJ', 'y')}
ok = ok and note('both used on equal documents', x == y and y == x)
r3 = {use.replace('OBJ', 'x').replace('u', '0', 1) if False else use.replace('OBJ', 'x')}
z = {build}
ok = ok and note('used twice vs fresh', x == z and z == x and y == z)
return ok
"""
        out.append(mk_case(f"c14.used_vs_fresh.{cid}", [("a", "int"), ("b", "int"), ("u", "Union[int, bool, None]")], body, pre=["I64(a, b)", "BU(2, u)"], stubs=["sym_repr"]))
    # ---- copies made by the copy protocol (copy.copy / copy.deepcopy; pickle on the concrete witness run): a copy is a separately
    # built copy of the same definition - it compares equal both ways, behaves identically, and using / extending the copy leaves
    # the original as it was (valida itself copies paths for modifiers, conditions for serialisation, rules for add_schema)
    cdoc = "{'x': [u, 3, {'k': a}], 'a': {'b': u, 'c': '4'}, 'k': a, 1: [a, u]}"
    COPIES = [
        ("leaf", "Value.greater_than(a)", "tx(OBJ.filter([u, a, 0]).result)"),
        ("leaf.kw", "Value.keys_contain_at_least_N_of(1, ['k', s])", "tx(OBJ.filter([{'k': u}, {s: 1, 'z': 0}, u]).result)"),
        ("leaf.dtype", "Value.dtype.in_([int, str])", "tx(OBJ.filter([u, a, None]).result)"),
        ("leaf.patharg", "Value.less_than(DataPath('k'))", "tx(Rule(('x', ListValue()), OBJ).test(%s).is_valid)" % cdoc),
        ("comb", "(Value.greater_than(a) & Value.is_instance(int)) | (Value.equal_to(s) ^ Value.falsy())", "tx(OBJ.filter([u, a, s, 0]).result)"),
        ("comb.null", "Value.greater_than(a) & NullCondition()", "tx(OBJ.filter([u, a, 0]).result)"),
        ("part.map", "MapValue(key=Key.not_equal_to(s), value=Value.is_instance(list, dict), label='lab')", "tx(DataPath(OBJ).get_data(%s, return_paths=True))" % cdoc),
        ("part.list", "ListValue(index=Index.less_than(a))", "tx(DataPath('x', OBJ).get_data(%s, return_paths=True))" % cdoc),
        ("part.mol", "MapOrListValue(key=s, index=1)", "tx(DataPath('a', OBJ).get_data(%s, return_paths=True)) + tx(DataPath('x', OBJ).get_data(%s, return_paths=True))" % (cdoc, cdoc)),
        ("path", "DataPath('x', ListValue(value=Value.greater_than(a)))", "tx(OBJ.get_data(%s, return_paths=True))" % cdoc),
        ("path.mod", "DataPath(MapValue(value=Value.is_instance(list, dict))).length().last()", "tx(OBJ.get_data(%s, return_paths=True))" % cdoc),
        ("path.bound", "DataPath('a', s, source_data={'a': {'b': u, 'c': a}})", "tx(OBJ.get_data())"),
        ("rule", "Rule(('a', MapValue()), Value.greater_than(a), cast={str: int}, doc='d')", "summarize_test(OBJ.test({'a': {'b': u, 'c': '4'}, 'k': a}))"),
        ("schema", "Schema([Rule(('a', 'c'), Value.greater_than(a), cast={str: int}), Rule(('a', MapValue(key=s)), Value.not_equal_to(None))])", "summarize_validation(OBJ.validate({'a': {'b': u, 'c': '4'}, 'k': a}))"),
    ]
    for cid, build, beh in COPIES:
        body = f"""
import copy
x = {build}
ref = {beh.replace('OBJ', 'x')}
ok = True
for how in ('copy', 'deepcopy', 'pickle'):
    if how == 'pickle':
        if not concrete_run():
            continue
        import pickle
        y = pickle.loads(pickle.dumps(x))
    else:
        y = getattr(copy, how)(x)
    {LAWS.strip().replace(chr(10), chr(10) + '    ')}
    ok = ok and note(how + ': the copy equals the original', e_xy and e_yx and type(y) is type(x))
    ok = ok and same(how + ': the copy behaves as the original', {beh.replace('OBJ', 'y')}, ref)
    ok = ok and same(how + ': the original behaves as before', {beh.replace('OBJ', 'x')}, ref)
    fresh = {build}
    ok = ok and note(how + ': copy equals a separately built object', y == fresh and fresh == y)
return ok
"""
        out.append(mk_case(f"c14.copies.{cid}", [("a", "int"), ("s", "str"), ("u", "Optional[int]" if cid in ("rule", "schema") else U)], body, pre=["I64(a)", "s in ('b', 'k', 'zz')", f"BU({L}, u)"], stubs=["sym_repr"]))
    # ---- transitivity / rebuilt
    t3 = [("a", "int"), ("b", "int"), ("c", "int")]
    for nm, build in [
        ("leaf", "Value.equal_to(ATOM)"),
        ("comb", "(Value.gt(ATOM) & Value.lt(3)) | Value.eq(ATOM)"),
        ("part.map", "MapValue(key=ATOM, value=Value.gt(ATOM))"),
        ("part.mol", "MapOrListValue(key=ATOM, index=ATOM)"),
        ("path", "DataPath('x', ATOM, ListValue(index=ATOM))"),
        ("path.mod", "DataPath('x', ListValue(index=ATOM)).length().first()"),
        ("rule", "Rule(('x', ATOM), Value.equal_to(ATOM), cast={str: int})"),
        ("schema", "Schema([Rule(('x', ATOM), Value.equal_to(ATOM)), Rule((), Value.truthy())])"),
    ]:
        out.append(triple_case(f"c14.trans.{nm}", t3, ["I64(a, b, c)"], build))
    out.append(triple_case("c14.trans.leaf.str", [("a", "str"), ("b", "str"), ("c", "str")], [f"len(a) <= {L} and len(b) <= {L} and len(c) <= {L}"], "Value.equal_to(ATOM)"))
    return out
