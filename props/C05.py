"""C05 - a rule is valid iff every node its path selects satisfies its condition."""
from engine.runner import mk_case
from props.C03 import PARTS, DOCS_ALL as DOCS, DEEP_QUICK, DEEP_MORE

U = "Union[int, bool, None, str]"

CONDS = {
    "gt": ("V('greater_than', t1)", [("t1", "int")]),
    "eq": ("V('equal_to', e1)", [("e1", U)]),
    "truthy": ("V('truthy')", []),
    "isdict": ("V('is_instance', dict)", []),
    "len": ("leaf('value', 'length', 'less_than', t1)", [("t1", "int")]),
    "dtype": ("leaf('value', 'dtype', 'in_', [int, str])", []),
    "keys": ("V('keys_contain', 'b')", []),
    "null": ("NULL", []),
    "and": ("('and', V('greater_than', t1), V('less_than', t2))", [("t1", "int"), ("t2", "int")]),
    "or": ("('or', V('equal_to', e1), V('greater_than', t1))", [("e1", U), ("t1", "int")]),
    "xor": ("('xor', V('truthy'), V('greater_than', t1))", [("t1", "int")]),
    "nest": ("('and', ('or', V('is_instance', str), V('greater_than', t1)), ('xor', V('truthy'), V('equal_to', e1)))", [("t1", "int"), ("e1", "int")]),
    "andnull": ("('and', ('and', V('greater_than', t1), V('less_than', t2)), NULL)", [("t1", "int"), ("t2", "int")]),
    "factor": ("V('has_factor', t1)", [("t1", "int")]),
    "eqlist": ("V('equal_to', [e2, 3])", [("e2", "int")]),
    "nelist": ("('or', V('not_equal_to', [e2, 3]), V('equal_to', []))", [("e2", "int")]),
    "itemslist": ("V('items_contain', c=[e2, 3])", [("e2", "int")]),
    # tuple arguments are compared as tuples (a list node never equals a tuple; a tuple inside a membership list matches no list node)
    "eqtuple": ("V('equal_to', (e2, e3))", [("e2", "int"), ("e3", "int")]),
    "netuple": ("V('not_equal_to', (e2, e3))", [("e2", "int"), ("e3", "int")]),
    "in_tuplelist": ("V('in_', [(e2, e3), 0, [e2]])", [("e2", "int"), ("e3", "int")]),
}


def BOUNDS(ctx):
    return {
        "rules": "path skeletons of C03 (lengths 0-3; a deep family of 4-7 parts over a six-level document with five-item lists) x value-kind condition trees (leaves with/without pre-processor, mapping "
                 "callables, and/or/xor nesting, null); see props/C05.py",
        "documents": "C03's three heterogeneous skeletons; leaves u1 Union[int,bool,None,str], u2/u3 int",
        "symbolic": "document leaves, thresholds/arguments, primitive path parts",
        "reasons": "presence (>= 1 str per failure) is asserted, not wording; the real Condition.__repr__ runs; only the text "
                   "CrossHair renders for a symbolic atom is a constant (engine-side sym_repr stub)",
        "outside": "wording of reasons; documents deeper than 3 levels (6 in the deep family)",
    }


def rule_case(shape, condid, docid, L, intdoc=False):
    params, seen, parts = [], set(), []
    for p in shape:
        src, ps = PARTS[p]
        parts.append(src)
        for q in ps + CONDS[condid][1]:
            pass
        for q in ps:
            if q[0] not in seen:
                seen.add(q[0])
                params.append(q)
    for q in CONDS[condid][1]:
        if q[0] not in seen:
            seen.add(q[0])
            params.append(q)
    params += [("u1", "int" if intdoc else U), ("u2", "int"), ("u3", "int")]
    names = ", ".join(p[0] for p in params)
    body = f"""
PT = ({''.join(p + ', ' for p in parts)})
CT = {CONDS[condid][0]}
doc = {DOCS[docid]}
rule = Rule(build_path(PT), build_cond(CT))
t = rule.test(doc)
valid, tested, fails = ref_rule(PT, CT, doc)
ok = same('is_valid', t.is_valid, valid) and same('tested', t.tested, tested)
ok = ok and same('num_failures', t.num_failures, len(fails)) and note('failure list length', len(t.failures) == len(fails))
if ok:
    for f, (v, cp) in zip(t.failures, fails):
        ok = ok and note('failure value is the value of the failing node', f.value is v or (cp == () and tx(f.value) == tx(v)))  # (the root node is handed out as an equal copy)
        ok = ok and same('failure path', tx(tuple(f.path)), tx(cp))
        ok = ok and note('the path is truthful', follow(doc, f.path) is v)
        ok = ok and note('at least one textual reason', len(f.reasons) >= 1 and all(isinstance(r, str) and len(r) > 0 for r in f.reasons))
return ok
"""
    return mk_case(f"c05.rule.{'/'.join(shape) or 'empty'}.{condid}.{docid}", params, body, pre=[f"BU({L}, {names})"], stubs=["sym_repr"])


QUICK = [
    (("M",), "gt", "dm"), (("M",), "isdict", "dm"), (("X",), "eq", "dl"), (("L",), "truthy", "dl"), (("a", "c", "L"), "and", "dm"),
    (("a", "c", "i"), "gt", "dm"), (("X", "X"), "gt", "dl"), (("l", "L"), "or", "dm"), (("M", "M"), "xor", "dm"), (("l", "L"), "nest", "dm"), (("M",), "len", "dm"),
    (("X",), "dtype", "dl"), (("Md",), "keys", "dm"), (("L", "Mk"), "eq", "dl"), (("i", "j"), "gt", "dl"), (("s",), "null", "dm"),
    (("M", "c", "Lv"), "gt", "dm"), (("M", "M"), "andnull", "dm"), (("X", "X", "X"), "truthy", "dl"), (("Mv",), "eq", "dm"), ((), "isdict", "dm"), ((), "keys", "dl"),
    (("a", "b"), "eq", "dm"), (("f1", "b"), "gt", "dk"), (("T",), "isdict", "dk"), (("Li",), "xor", "dl"), (("X", "Xiv"), "truthy", "dl"),
    (("l", "Liv", "X"), "gt", "dm"), (("a", "c", "L"), "factor", "dm"), (("s", "s2"), "gt", "dm"), (("L", "L"), "len", "dl"), (("Xc",), "or", "dm"),
    (("M", "M", "M"), "gt", "dm"), (("X", "i"), "and", "dl"),
    (("a", "c"), "eqtuple", "dm"), (("M", "c"), "netuple", "dm"), (("a", "M"), "in_tuplelist", "dm"),
]


def twin_case(cid, cond_term, L):
    body = f"""
PT = (('prim', 'xs'), ('list', NULL))
CT = {cond_term}
doc = {{'xs': [1, True, 1.0, 0, False, 0.0, u1, 2, 2.0], 'ys': {{'a': u1}}}}
rule = Rule(build_path(PT), build_cond(CT))
t = rule.test(doc)
valid, tested, fails = ref_rule(PT, CT, doc)
ok = same('is_valid', t.is_valid, valid) and same('num_failures', t.num_failures, len(fails))
ok = ok and same('failing paths', tx([tuple(f.path) for f in t.failures]), tx([cp for _, cp in fails]))
ok = ok and note('failure values are the failing nodes', len(t.failures) == len(fails) and all(f.value is v for f, (v, _) in zip(t.failures, fails)))
return ok
"""
    return mk_case(f"c05.twins.{cid}", [("u1", "Union[bool, None, str]")], body, pre=[f"BU({L}, u1)"], stubs=["sym_repr"])


def cases(ctx):
    L = 2 if ctx.quick else 3
    out = []
    for cid, ct in [("dtype", "leaf('value', 'dtype', 'in_', [int, str])"), ("tree", "('or', V('is_instance', bool), ('and', V('greater_than', t1), V('truthy')))")]:
        body = f"""
PT = (('prim', 'xs'), ('list', NULL))
CT = {ct}
rule = Rule(build_path(PT), build_cond(CT))
docs = ({{'xs': [1, u1, 0]}}, {{'xs': [True, u1, F0]}}, {{'xs': []}}, {{'ys': 1}}, {{'xs': [1, u1, 0]}}, {{'xs': [[1], None, F2]}})
ok = True
for doc in docs:
    t = rule.test(doc)
    valid, tested, fails = ref_rule(PT, CT, doc)
    ok = ok and same('verdict on this document', (t.is_valid, t.tested, t.num_failures), (valid, tested, len(fails)))
    ok = ok and same('failing paths', tx([tuple(f.path) for f in t.failures]), tx([cp for _, cp in fails]))
return ok
"""
        body = body.replace("F0", "False" if cid == "tree" else "0.0").replace("F2", "2" if cid == "tree" else "2.0")
        out.append(mk_case(f"c05.reuse.{cid}", [("t1", "int"), ("u1", "Union[bool, None, str]")], body, pre=[f"BU({L}, t1, u1)"], stubs=["sym_repr"]))
    # values that compare equal but differ in type (1 / True / 1.0, 0 / False / 0.0) under type-sensitive conditions
    for cid, ct in [("dtype_int", "leaf('value', 'dtype', 'equal_to', int)"), ("dtype_bool", "leaf('value', 'dtype', 'equal_to', bool)"),
                    ("dtype_in", "leaf('value', 'dtype', 'in_', [float, bool])"), ("is_instance_bool", "V('is_instance', bool)"),
                    ("is_instance_float", "('or', V('is_instance', float), V('equal_to', None))"),
                    ("dtype_ne", "('and', leaf('value', 'dtype', 'not_equal_to', float), V('truthy'))")]:
        out.append(twin_case(cid, ct, L))
    # deep family: rule paths of 4-7 parts over C03's six-level document with five-item lists
    deep = [(DEEP_QUICK[0], "gt"), (DEEP_QUICK[1], "xor"), (DEEP_QUICK[2], "gt"), (DEEP_QUICK[3], "truthy"), (DEEP_QUICK[5], "eq")]
    if not ctx.quick:
        conds = ["gt", "isdict", "len", "dtype", "or", "nest", "keys", "null", "andnull", "eq"]
        deep += [(sh, conds[(i + k) % len(conds)]) for i, sh in enumerate(DEEP_QUICK + DEEP_MORE) for k in (0, 3, 7)]
        # shapes with a conditioned part over a five-item list (or five and more wildcards) did not finish at 240 s with a two-atom
        # condition (X/X/X/X/X/X.nest, a/b/c/1/d/Li.nest, a/b/c/X/d/Xv.or): there the condition is a one-atom one
        wide = lambda sh: any(q in ("Li", "Lie", "Lv", "Xv", "Mk") for q in sh) or sh.count("X") >= 5
        deep = [(sh, "gt" if wide(sh) and c in ("nest", "or", "and", "andnull") else c) for sh, c in deep]
    for sh, c in dict.fromkeys(deep):
        case = rule_case(sh, c, "d6", L, intdoc=not ctx.quick and sh.count("X") >= 3)
        case["id"] = case["id"].replace("c05.rule.", "c05.ruledeep.")
        out.append(case)
    # data-path arguments whose modifier cannot be evaluated on the referenced node (length of a number, keys of a list, an ambiguous
    # single()): the condition cannot be evaluated for any selected node, so each one fails - the rule is tested and invalid, and an
    # `or` / `xor` whose other operand decides still judges node by node; nothing raises
    body = """
doc = {'limit': u2, 'allowed': [u1, 2], 'xs': [u3, 'ab', [1]], 'dup': {'a': 1, 'b': 2}}
P = ('xs', ListValue())
ok = True
for cond, exp in ((Value.length.equal_to(DataPath('limit').length()), [0, 1, 2]),
                  (Value.in_(DataPath('allowed').map_keys()), [0, 1, 2]),
                  (Value.equal_to(DataPath('dup', MapValue()).single()), [0, 1, 2]),
                  (Value.equal_to(DataPath('limit').length()) | Value.is_instance(str), [0, 2]),
                  (Value.equal_to(DataPath('limit').length()) ^ Value.is_instance(str), [0, 2]),
                  (Value.is_instance(list) | Value.less_than(DataPath('allowed').map_values()), [0, 1])):
    t = Rule(P, cond).test(doc)
    ok = ok and same('tested, invalid, one failure per node that cannot be judged', (t.is_valid, t.tested, t.num_failures), (False, True, len(exp)))
    ok = ok and same('failing paths', tx([tuple(f.path) for f in t.failures]), tx([('xs', i) for i in exp]))
return ok
"""
    out.append(mk_case("c05.patharg.undefined_modifier", [("u1", U), ("u2", "int"), ("u3", "int")], body, pre=[f"BU({L}, u1, u2, u3)"], stubs=["sym_repr"]))
    # aliased documents: one container object under several branches - each branch is a node with its own failure entry
    for sh, c in [(("M", "b"), "gt"), (("X", "X"), "len"), (("l", "L", "b"), "eq"), (("M", "c", "i"), "gt")] + ([] if ctx.quick else [(("X", "X", "X"), "gt"), (("c", "L", "Lv"), "len")]):
        case = rule_case(sh, c, "da", L)
        case["id"] = case["id"].replace("c05.rule.", "c05.rulealias.")
        out.append(case)
    if ctx.quick:
        for sh, c, d in QUICK:
            out.append(rule_case(sh, c, d, L))
    else:
        seen = set()
        shapes = sorted({q[0] for q in QUICK})
        for sh in shapes:
            for c in CONDS:
                for d in ("dm", "dl"):
                    if c == "factor" and sh != ("a", "c", "L"):
                        continue  # a str datum would be %-formatted with the symbolic divisor (realises it)
                    # the widest fan-outs with two-atom conditions do not finish within the thorough budget with a Union-typed
                    # leaf: there the leaf u1 is an int (the Union-typed leaf meets these shapes under the one-atom conditions)
                    heavy = sh in (("X", "X", "X"), ("X", "Xiv"), ("X", "i")) and c in ("and", "andnull", "nest", "or", "eq", "dtype", "isdict", "keys", "len")
                    out.append(rule_case(sh, c, d, L, intdoc=heavy))
        for sh, c, d in QUICK:
            if d == "dk":
                out.append(rule_case(sh, c, d, L))
    # documents whose containers are dict / list subclasses and whose strings are str subclasses (what config / round-trip
    # YAML loaders hand out): selection, verdict and failure paths as for plain containers
    for cid, PT, CT in [
        ("M/x", "(('map', NULL), ('prim', 'x'))", "V('greater_than', t1)"),
        ("jobs/L/M", "(('prim', 'jobs'), ('list', NULL), ('map', NULL))", "('or', V('is_instance', str), V('greater_than', t1))"),
        ("X/X", "(('mol', NULL, NULL, NULL), ('mol', NULL, NULL, NULL))", "leaf('value', 'dtype', 'in_', [int, str])"),
        ("root", "()", "V('keys_contain', 'jobs')"),
    ]:
        body = f"""
import collections
class Seq(list):
    pass
class Quoted(str):
    pass
PT = {PT}
CT = {CT}
doc = collections.OrderedDict([('a', collections.OrderedDict([('x', u1), ('y', Quoted('q'))])), ('b', collections.defaultdict(int, {{'x': u2}})),
                               ('jobs', Seq([collections.OrderedDict(n=u1), {{'n': Quoted('s'), 'x': u2}}, Seq([u2])])), ('c', 7)])
rule = Rule(build_path(PT), build_cond(CT))
t = rule.test(doc)
valid, tested, fails = ref_rule(PT, CT, doc)
ok = same('is_valid', t.is_valid, valid) and same('tested', t.tested, tested) and same('num_failures', t.num_failures, len(fails))
ok = ok and same('failing paths', tx([tuple(f.path) for f in t.failures]), tx([cp for _, cp in fails]))
ok = ok and note('failure values are the failing nodes', len(t.failures) == len(fails) and all(f.value is v or cp == () for f, (v, cp) in zip(t.failures, fails)))
v = Schema([rule]).validate(doc)
ok = ok and same('schema verdict', (v.is_valid, v.num_failures), (valid, len(fails)))
return ok
"""
        out.append(mk_case(f"c05.subclass_docs.{cid}", [("t1", "int"), ("u1", U), ("u2", "int")], body, pre=[f"BU({L}, t1, u1, u2)"], stubs=["sym_repr"]))
    # equality-style callables with a list argument, on documents that hold an equal list node
    for c in ("eqlist", "nelist", "itemslist"):
        for sh in ((("a", "c"), ("M",), ("M", "M")) if c != "itemslist" else (("a",), ("M",))):
            case = rule_case(sh, c, "dm", L)
            case["id"] = case["id"].replace(".dm", ".dm3")
            case["body"] = case["body"].replace("'c': [u2, u3]", "'c': [u2, 3], 'e': []")
            out.append(case)
    return out
