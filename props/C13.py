"""C13 - rules and schemas survive the JSON round trip, casts included."""
from engine.runner import mk_case

UN = "Union[int, bool, None]"
DOC = "{'a': {'b': u1, 'c': [u2, 3]}, 's': S1, 'n': S2, 'l': [u1, S2, 'x'], 1: u2}"
POOL = ["'true'", "'3'", "'x'", "'False'", "'-2'", "''"]


def BOUNDS(ctx):
    return {
        "schemas": "1-3 rules; conditions from the C11 fragment (leaves with all argument kinds incl. data-path arguments and type "
                   "objects, nested combinations); paths from the fragment C12 serialises (primitive, bare and conditioned parts, "
                   "labels); with and without str->bool / str->int casts",
        "assertions": "serialised form structurally pure JSON; rebuilt == original; same validity, failure paths, tested count and "
                      "cast data on symbolic documents; Rule and Schema entry points; real JSON text on each case's witness",
        "symbolic": "thresholds, keys, the non-castable leaves; cast strings are concrete pool entries",
        "outside": "rule docs (not part of the serialised form nor of equality); rule paths with datum/multiplicity modifiers "
                   "(not expressible in rule specs)",
    }


RULES = {
    "eq": ("Rule(('a', 'b'), Value.equal_to(t))", [("t", "int")]),
    "fan": ("Rule(('l', ListValue()), Value.dtype.in_([int, str]) | Value.equal_to(None))", []),
    "castbool": ("Rule(('s',), Value.equal_to(True), cast={str: valida.casting.cast_string_to_bool})", []),
    "castint": ("Rule(('n',), Value.greater_than(t), cast={str: int})", [("t", "int")]),
    "castfan": ("Rule(('l', ListValue(index=Index.greater_than(n))), Value.is_instance(int), cast={str: int})", [("n", "int")]),
    "castmap": ("Rule((MapValue(key=Key.in_(['s', 'n', 'zz'])),), Value.is_instance(bool) | Value.is_instance(str), cast={str: valida.casting.cast_string_to_bool})", []),
    "keycond": ("Rule((MapValue(key=Key.not_equal_to('l'), value=Value.is_instance(dict)), 'b'), Value.truthy() & Value.not_equal_to(t))", [("t", "int")]),
    "patharg": ("Rule(('a', 'b'), Value.equal_to(DataPath(1)))", []),
    "patharg2": ("Rule(('a', 'c', ListValue()), Value.in_(DataPath('l', ListValue())) | Value.less_than(DataPath('a', 'c').length()))", []),
    # the root path (no parts) as a data-path argument, with modifiers: serialised as {'path[.mod]': []}
    "rootarg": ("Rule(('a', 'c', 1), Value.equal_to(DataPath().length()) | Value.in_(DataPath().map_keys()))", []),
    "rootarg.cast": ("Rule(('n',), Value.less_than(DataPath().length()) | Value.in_([DataPath().length(), t]), cast={str: int})", [("t", "int")]),
    "rootarg.kw": ("Rule(('a',), Value.items_contain(b=DataPath('a', 'b'), c=DataPath()) | Value.dtype.equal_to(DataPath().dtype()))", []),
    "intkey": ("Rule((1,), Value.in_range(lo, hi))", [("lo", "int"), ("hi", "int")]),
    "mol": ("Rule((MapOrListValue(key=k, index=0, label='first'),), Value.is_instance(dict, list, int))", [("k", "str")]),
    "empty": ("Rule((), Value.keys_contain_at_least_N_of(n, ['a', 's', 'zz']))", [("n", "int")]),
    "null": ("Rule(('a',), NullCondition())", []),
    "emptycast": ("Rule(('a', 'b'), Value.falsy(), cast={})", []),
    "docstr": ("Rule.from_spec({'path': ['a', 'b'], 'condition': {'value.equal_to': t}, 'doc': 'the b of a '})", [("t", "int")]),
    "docraw": ("Rule(('a', 'b'), Value.equal_to(t), doc='the b of a ')", [("t", "int")]),
    "docraw2": ("Rule(('s',), Value.equal_to(True), cast={str: valida.casting.cast_string_to_bool}, doc={'description': 'flag\\n'})", []),
    "docmap": ("Rule(('s',), Value.equal_to(True), cast={str: valida.casting.cast_string_to_bool}, doc={'description': ['flag'], 'examples': ['s: true']})", []),
}


def schema_case(names, s1, s2, L, tag):
    params, seen = [], set()
    for n in names:
        for q in RULES[n][1]:
            if q[0] not in seen:
                seen.add(q[0])
                params.append(q)
    params += [("u1", UN), ("u2", "int")]
    pn = ", ".join(p[0] for p in params)
    pre = [f"BU({L}, {pn})"]
    if "intkey" in names:
        pre.append("0 <= hi - lo <= 3")
    rules = ", ".join(RULES[n][0] for n in names)
    doc = DOC.replace("S1", s1).replace("S2", s2)
    body = f"""
def make():
    return [{rules}]
rules = make()
sch = Schema(rules)
doc = {doc}
js = sch.to_json_like()
ok = note('serialised schema is pure JSON data', is_json_pure(js))
back = Schema.from_json_like(js)
ok = ok and note('rebuilt schema equals the original', back == sch)
ok = ok and same('same validity, failures and cast data', summarize_validation(back.validate(doc)), summarize_validation(sch.validate(doc)))
for r in rules:
    rjs = r.to_json_like()
    rb = Rule.from_json_like(rjs)
    ok = ok and note('rebuilt rule equals the original', rb == r and is_json_pure(rjs))
    ok = ok and same('same rule verdict and data', summarize_test(rb.test(doc)), summarize_test(r.test(doc)))
if ok and concrete_run():
    js2 = json_text_roundtrip(js)
    ok = ok and same('survives real JSON text', tx(js2), tx(js))
    back2 = Schema.from_json_like(js2)
    ok = ok and note('rebuilt from JSON text equals the original', back2 == sch)
    ok = ok and same('... and validates identically', summarize_validation(back2.validate(doc)), summarize_validation(sch.validate(doc)))
return ok
"""
    return mk_case(f"c13.schema.{'+'.join(names)}.{tag}", params, body, pre=pre, stubs=["sym_repr"])


COMBOS = [
    ["eq"], ["fan"], ["castbool"], ["castint"], ["castfan"], ["castmap"], ["keycond"], ["patharg"], ["patharg2"], ["intkey"], ["mol"],
    ["empty"], ["null"], ["emptycast"], ["castbool", "castint"], ["eq", "castbool", "fan"], ["castfan", "castmap"], ["keycond", "castint", "empty"],
    ["patharg", "castint"], ["mol", "null", "castbool"], ["docstr"], ["docmap", "docstr", "fan"], ["docraw"], ["docraw2", "eq"],
    ["rootarg"], ["rootarg.cast", "castbool"], ["rootarg.kw", "eq"],
]


def history_case(cid, change, L):
    body = f"""
def make():
    return Schema([Rule(('a', 'b'), Value.equal_to(t)), Rule(('s',), Value.equal_to(True), cast={{str: valida.casting.cast_string_to_bool}})])
sch = make()
doc = {{'a': {{'b': u1, 'p': u2}}, 's': 'true', 'n': '3', 'p': u2, 'srv': {{'port': '8080', 'deep': {{'port': '80800000'}}}}}}
js1 = sch.to_json_like()
ok = note('first serialisation round-trips', Schema.from_json_like(js1) == sch)
{change}
js2 = sch.to_json_like()
back = Schema.from_json_like(js2)
ok = ok and note('serialised again after the change: rebuilt equals the changed schema', back == sch and len(back) == len(sch))
import copy
doc2 = copy.deepcopy(doc)
ok = ok and same('... and validates identically', summarize_validation(back.validate(doc2)), summarize_validation(sch.validate(doc)))
ok = ok and same('... (the other way round, on separate copies)', summarize_validation(sch.validate(copy.deepcopy(doc2))), summarize_validation(back.validate(copy.deepcopy(doc2))))
ok = ok and same('serialising twice gives the same data', tx(sch.to_json_like()), tx(js2))
return ok
"""
    return mk_case(f"c13.history.{cid}", [("t", "int"), ("u1", UN), ("u2", "int")], body, pre=[f"BU({L}, t, u1, u2)"], stubs=["sym_repr"])


def cases(ctx):
    L = 2 if ctx.quick else 3
    out = []
    out.append(history_case("add_schema", "sch.add_schema(Schema([Rule(('p',), Value.greater_than(t), cast={str: int})]), DataPath('a'))", L))
    out.append(history_case("add_schema.root", "sch.add_schema(Schema([Rule(('n',), Value.greater_than(t), cast={str: int})]), DataPath())", L))
    out.append(history_case("add_schema.twice_same", "sub = Schema([Rule(('p',), Value.greater_than(t), cast={str: int}), Rule(('b',), Value.truthy())])\nsch.add_schema(sub, DataPath('a'))\nsch.add_schema(sub, DataPath('a'))", L))
    out.append(history_case("add_schema.shared_rule", "common = Rule(('p',), Value.greater_than(t))\nsch.add_schema(Schema([common, Rule(('b',), Value.falsy())]), DataPath('a'))\nsch.add_schema(Schema([Rule(('p',), Value.greater_than(t))]), DataPath('a'))", L))
    out.append(history_case("duplicate_rule_given", "sch = Schema([Rule(('a', 'b'), Value.equal_to(t)), Rule(('a', 'b'), Value.equal_to(t)), Rule(('s',), Value.equal_to(t))])", L))
    # a cast-free schema extended with casting rules under a root; a later cast-free rule looks at the raw value of the cast node
    out.append(history_case("add_schema.casts_into_castfree",
                            "sch = Schema([Rule(('a', 'b'), Value.equal_to(t))])\njs1 = sch.to_json_like()\n"
                            "sch.add_schema(Schema([Rule(('port',), Value.greater_than(t), cast={str: int}), Rule(('port',), Value.length.less_than(6)), Rule(('port',), Value.dtype.equal_to(str))]), DataPath('srv'))", L))
    # equality with the rebuilt schema does not depend on whether either of them has already validated documents
    body = """
sch = Schema([Rule(('a', 'b'), Value.equal_to(t)), Rule(('s',), Value.equal_to(True), cast={str: valida.casting.cast_string_to_bool})])
doc = {'a': {'b': u1}, 's': 'true'}
v1 = sch.validate(doc)
back = Schema.from_json_like(sch.to_json_like())
ok = note('a used schema round-trips to an equal schema', back == sch and sch == back)
v2 = back.validate({'a': {'b': u2}, 's': 'x'})
ok = ok and note('... still equal after the rebuilt one validated another document', back == sch and sch == back)
v3 = sch.validate(doc)
ok = ok and note('... and after both validated', Schema.from_json_like(back.to_json_like()) == sch)
r = sch.rules[0]
t1 = r.test(doc)
ok = ok and note('a used rule round-trips to an equal rule', Rule.from_json_like(r.to_json_like()) == r)
return ok
"""
    out.append(mk_case("c13.history.used_then_roundtrip", [("t", "int"), ("u1", UN), ("u2", "int")], body, pre=[f"BU({L}, t, u1, u2)"], stubs=["sym_repr"]))
    out.append(history_case("rules_edited", "sch.rules = sch.rules[:1] + [Rule(('n',), Value.is_instance(int), cast={str: int})]", L))
    out.append(history_case("rule_replaced", "sch.rules[0] = Rule(('n',), Value.not_equal_to(t), cast={str: int})", L))
    for n, names in enumerate(COMBOS):
        pairs = [(POOL[n % len(POOL)], POOL[(n + 1) % len(POOL)])] if ctx.quick else [(a, b) for a in POOL[:4] for b in POOL[1:5]]
        if not any("cast" in x for x in names) and not ctx.quick:
            pairs = pairs[:2]
        for s1, s2 in pairs:
            out.append(schema_case(names, s1, s2, L, f"{POOL.index(s1)}_{POOL.index(s2)}"))
    return out
