"""C11 - conditions survive the JSON-like round trip."""
from engine.runner import mk_case
from engine import terms

U = "Union[int, bool, None, str]"
POOL = "('k', 'j', 'z')"

ASSERT = """
js = c.to_json_like()
ok = note('serialised form is pure JSON data', is_json_pure(js))
r = ConditionLike.from_json_like(js)
ok = ok and note('rebuilt condition equals the original', r == c and type(r) is type(c))
ok = ok and same('re-serialisation gives the same data', tx(r.to_json_like()), tx(js))
ok = ok and same('both filter identically', r.filter(doc).result, c.filter(doc).result)
if ok and concrete_run():
    # real JSON text, on this run's concrete atoms only
    js2 = json_text_roundtrip(js)
    ok = ok and same('survives json.dumps/json.loads unchanged', tx(js2), tx(js))
    ok = ok and note('rebuilt from JSON text equals the original', ConditionLike.from_json_like(js2) == c)
return ok
"""


def BOUNDS(ctx):
    return {
        "terms": "the meaningful DSL of the quantifier: all callables on value/key/index; length with equality/ordering/range/"
                 "membership/approx; dtype with equality and membership; nested and/or/xor to depth 2",
        "arguments": "JSON-like values (Union atoms, lists, str-keyed mappings, None), type objects (is_instance, keys_is_instance, dtype), "
                     "data paths (concrete / non-concrete, with datum and multiplicity modifiers; positional, inside list and mapping "
                     "arguments), literal mappings whose keys look like path specs ('path', 'path.length', 'mypath', '\\\\path')",
        "symbolic": "argument atoms and the probe document's leaf; keys arguments pooled over " + POOL,
        "real JSON": "json.dumps/json.loads (a C boundary) runs on each case's concrete witness only; purity is decided structurally on "
                     "the symbolic structure",
        "outside": "tuples and non-str mapping keys in arguments (not JSON-representable); conditions whose data-path argument "
                   "cannot be serialised by C12 (open known finding there)",
    }


DOCS = {
    "value": ("[u1, 0, 'a', [1], {'k': 0, 'j': 2}]", [("u1", U)]),
    "key": ("{'a': u1, 2: 0, '': 1, None: 2}", [("u1", U)]),
    "index": ("[u1, 0, 'a']", [("u1", U)]),
}


def variants(name, dom, L):
    a_u = [("a", U)]
    ints = lambda *n: [(x, "int") for x in n]
    k1 = [("k1", "str")]
    pk = [f"k1 in {POOL}"]
    if dom == "type":
        return {"equal_to": [("int", "int", [], []), ("dict", "dict", [], []), ("bool", "bool", [], [])],
                "not_equal_to": [("str", "str", [], [])],
                "in_": [("list", "[int, str]", [], []), ("one", "[float]", [], [])],
                "not_in": [("list", "[list, dict, bool]", [], [])]}.get(name, [])
    if dom == "int":
        if name in ("equal_to", "not_equal_to", "less_than", "greater_than", "less_than_or_equal_to", "greater_than_or_equal_to"):
            return [("int", "a", ints("a"), ["I64(a)"])]
        if name in ("in_", "not_in"):
            return [("list", "[a, 2]", ints("a"), ["I64(a)"])]
        if name in ("in_range", "not_in_range"):
            return [("ints", "lo, hi", ints("lo", "hi"), ["I64(lo, hi)"])]
        if name == "equal_to_approx":
            return [("ints", "v, tol", ints("v", "tol"), ["I64(v, tol)"]), ("default", "3", [], [], "no_int_leaf")]
        if name in ("factor_of", "has_factor"):
            return [("int", "v", ints("v"), ["I64(v)"])]
        if name in ("truthy", "falsy", "null"):
            return [("none", "", [], [])]
        if name == "is_instance":
            return [("int", "int", [], [])]
        return []
    if name in ("equal_to", "not_equal_to"):
        return [("u", "a", a_u, [f"BU({L}, a)"]), ("list", "[a, [1, 'x'], None]", a_u, [f"BU({L}, a)"]),
                ("map", "{'k': a, 'j': {'x': [a]}}", a_u, [f"BU({L}, a)"]), ("float", "1.5", [], [], "no_int_leaf")]
    if name in ("less_than", "greater_than", "less_than_or_equal_to", "greater_than_or_equal_to"):
        return [("int", "a", ints("a"), ["I64(a)"]), ("str", "s", [("s", "str")], [f"len(s) <= {L}"])]
    if name in ("in_", "not_in"):
        return [("list", "[a, 1, 'x']", a_u, [f"BU({L}, a)"]), ("str", "s", [("s", "str")], [f"len(s) <= {L}"]),
                ("map", "{'k': 0, 'j': 1}", [], [])]
    if name in ("in_range", "not_in_range"):
        return [("ints", "lo, hi", ints("lo", "hi"), ["I64(lo, hi) and hi - lo <= 3"])]
    if name == "equal_to_approx":
        return [("ints", "v, tol", ints("v", "tol"), ["I64(v, tol)"]), ("default", "3", [], [], "no_int_leaf"), ("kw", "value=v, tolerance=tol", ints("v", "tol"), ["I64(v, tol)"])]
    if name in ("factor_of", "has_factor"):
        return [("int", "v", ints("v"), ["I64(v)"])]
    if name in ("truthy", "falsy", "null"):
        return [("none", "", [], [])]
    if name == "is_instance":
        return [("types", "int, str", [], []), ("one", "dict", [], []), ("none", "", [], [])]
    if name == "keys_contain":
        return [("pooled", "k1", k1, pk)]
    if name in ("keys_contain_any_of", "keys_contain_all_of", "keys_contain_one_of", "keys_equal_to", "allowed_keys", "required_keys", "forbidden_keys"):
        return [("two", "k1, 'j'", k1, pk), ("none", "", [], [])]
    if name in ("keys_contain_N_of", "keys_contain_at_least_N_of", "keys_contain_at_most_N_of"):
        return [("two", "n, [k1, 'j']", ints("n") + k1, ["I64(n)"] + pk)]
    if name in ("keys_contain_at_least_one_of", "keys_contain_at_most_one_of"):
        return [("two", "[k1, 'j']", k1, pk)]
    if name == "keys_is_instance":
        return [("str", "str", [], []), ("two", "int, str", [], [])]
    if name == "items_contain":
        return [("kw", "k=a, j=[a]", a_u, [f"BU({L}, a)"]), ("none", "", [], [])]
    raise AssertionError(name)


def cls_src(kind, pre):
    return {("value", None): "Value", ("value", "length"): "Value.length", ("value", "dtype"): "Value.dtype", ("key", None): "Key",
            ("key", "length"): "Key.length", ("key", "dtype"): "Key.dtype", ("index", None): "Index"}[(kind, pre)]


def leaf_case(kind, pre, name, variant, L):
    vid, args, params, pres = variant[:4]
    doc, dparams = DOCS[kind]
    if len(variant) > 4:
        # a float argument (1.5, the default tolerance 1e-8) against a symbolic int leaf stalls z3
        dparams = [("u1", "Optional[str]")]   # (a symbolic bool against a float goes through the same int/real mix)
    if name in ("factor_of", "has_factor"):
        doc = {"value": "[u1, 0, 6, [1], {'k': 0}]", "key": "{3: u1, 2: 0, 0: 1, None: 2}", "index": "[u1, 0, 'a']"}[kind]
        dparams = [("u1", "Union[int, bool, None]")]
    body = f"""
c = {cls_src(kind, pre)}.{name}({args})
doc = {doc}
{ASSERT}
"""
    return mk_case(f"c11.leaf.{kind}{'.' + pre if pre else ''}.{name}.{vid}", list(params) + dparams, body,
                   pre=list(pres) + [f"BU({L}, u1)"], stubs=["sym_repr"])


def cases(ctx):
    L = 2 if ctx.quick else 3
    out = []
    for kind, pre, name in terms.leaf_kinds():
        dom = {"length": "int", "dtype": "type", None: "raw"}[pre]
        if kind == "index":
            dom = "int"
        vs = variants(name, dom, L)
        for v in (vs[:1] if ctx.quick and not (kind == "value" and pre is None) else vs):
            out.append(leaf_case(kind, pre, name, v, L))
    # data-path arguments and literal mappings that look like path specs
    pdoc = "[u1, 0, 'a']"
    path_args = [
        ("path.concrete", "Value.equal_to(DataPath('a', s))", [("s", "str")]),
        ("path.int_part", "Value.equal_to(DataPath('a', i))", [("i", "int")]),
        ("path.nonconcrete", "Value.in_(DataPath('l', ListValue()))", []),
        ("path.mapvalue", "Value.in_(DataPath(MapValue()))", []),
        ("path.combined_part", "Value.in_(DataPath('a', MapValue(key=Key.not_equal_to('k'), value=Value.greater_than(i))))", [("i", "int")]),
        ("path.length", "Value.length.equal_to(DataPath('a', s).length())", [("s", "str")]),
        ("path.map_keys", "Value.in_(DataPath('a').map_keys())", []),
        ("path.first", "Value.equal_to(DataPath('l', ListValue()).first())", []),
        ("path.dtype.single", "Value.dtype.equal_to(DataPath(MapValue(), 'x').dtype().single())" if False else "Value.equal_to(DataPath(MapValue(), 'x').length().single())", []),
        ("path.kw", "Value.in_range(lower=DataPath('lo'), upper=i)", [("i", "int")], "0 <= i <= 3"),
        ("path.under_dtype", "Value.dtype.equal_to(DataPath('a', s).dtype())", [("s", "str")]),
        ("path.under_dtype.list", "Value.dtype.in_([int, DataPath('ref').dtype()])", []),
        ("path.is_instance", "Value.is_instance(DataPath('ref').dtype(), str)", []),
        ("path.two", "Value.in_range(DataPath('lo'), DataPath('hi', 0))", []),
        ("path.in_list", "Value.in_([DataPath('lim'), i])", [("i", "int")]),
        ("path.in_kwargs", "Value.items_contain(k=DataPath('lim', s))", [("s", "str")]),
        ("path.approx", "Value.equal_to_approx(DataPath('ref'), tolerance=i)", [("i", "int")]),
        ("literal.path", "Value.equal_to({'path': [a, 2]})", [("a", U)]),
        ("literal.path.suffix", "Value.equal_to({'path.length': [a]})", [("a", U)]),
        ("literal.mypath", "Value.equal_to({'mypath': a, 'x': 1})", [("a", U)]),
        ("literal.escaped", "Value.equal_to({'\\\\path': [a]})", [("a", U)]),
        ("literal.path.in_list", "Value.in_([{'path': [a]}, 1])", [("a", U)]),
        ("literal.path.in_kwargs", "Value.items_contain(k={'path': [a]})", [("a", U)]),
        ("literal.path.kwname", "Value.items_contain(path=a)", [("a", U)]),
        ("literal.path.scalar", "Value.equal_to({'path': a})", [("a", "int")]),
        ("literal.capital.Path", "Value.equal_to({'Path': [a, 2]})", [("a", U)]),
        ("literal.capital.PATH_first", "Value.equal_to({'PATH.First': [a]})", [("a", U)]),
        ("literal.capital.in_kwargs", "Value.items_contain(k={'pAtH.length': [a]})", [("a", U)]),
        ("literal.capital.multi", "Value.equal_to({'x': 1, 'MyPath': a})", [("a", U)]),
        ("literal.multi_key.path_last", "Value.equal_to({'name': 'x', 'path': [a, 2]})", [("a", U)]),
        ("literal.multi_key.path_first", "Value.equal_to({'path': [a, 2], 'name': 'x'})", [("a", U)]),
        ("literal.multi_key.suffix_last", "Value.not_equal_to({'kind': 'len', 'path.length': a, 'n': 0})", [("a", U)]),
        ("literal.multi_key.in_list", "Value.in_([3, {'name': 'x', 'path': [a]}])", [("a", U)]),
        ("literal.multi_key.in_kwargs", "Value.items_contain(cfg={'name': 'x', 'xpath': [a]})", [("a", U)]),
        ("literal.nested_two_levels", "Value.equal_to({'name': 'copy', 'src': {'path': [a, 0]}})", [("a", U)]),
        # path-like keys deeper than the writer / reader look (three and four containers down, through lists and keyword values)
        ("literal.nested_three_levels", "Value.equal_to({'cfg': {'src': {'path': [a]}}})", [("a", U)]),
        ("literal.nested.list_map_map", "Value.equal_to([{'src': {'Path.length': [a]}}, 2])", [("a", U)]),
        ("literal.nested.kwargs_list_map", "Value.items_contain(sources=[{'path': a}])", [("a", U)]),
        ("literal.nested_four_levels", "Value.in_([[{'k': {'mypath': a, 'n': 1}}]])", [("a", U)]),
        ("literal.nested.escaped_deep", "Value.equal_to({'cfg': {'src': {'\\\\path': [a]}}})", [("a", U)]),
        ("path.in_map_value", "Value.equal_to({'k': DataPath('ref'), 'j': a})", [("a", "int")]),
        # data-path arguments with unusual container-value parts: key != index, labelled parts, an int-keyed MapValue on a list
        ("path.mol_key_ne_index", "Value.equal_to(DataPath('a', MapOrListValue(key='k', index=0)))", []),
        ("path.mol_key_ne_index.list", "Value.equal_to(DataPath('l', MapOrListValue(key='k', index=1)))", []),
        ("path.labelled_part", "Value.equal_to(DataPath('a', MapValue(key='k', label='lab')))", []),
        ("path.labelled_first_part", "Value.equal_to(DataPath(MapValue(key='ref', label='lab')).first())", []),
        ("path.mapvalue_int_key", "Value.equal_to(DataPath('l', MapValue(key=1)))", []),
        ("path.listvalue_index", "Value.equal_to(DataPath('l', ListValue(index=1)).first())", []),
        # data paths as values of a mapping argument whose keys themselves look like path specs
        ("path.in_kwargs.kwname_path", "Value.items_contain(path=DataPath('lim', s))", [("s", "str")]),
        ("path.in_map_value.key_path", "Value.equal_to({'path': DataPath('ref'), 'j': a})", [("a", "int")]),
        ("path.in_map_value.key_suffix", "Value.equal_to({'Path.length': DataPath('a').length(), 'j': a})", [("a", "int")]),
        ("path.in_map_value.key_escaped", "Value.equal_to({'\\\\path': DataPath('ref'), 'j': a})", [("a", "int")]),
        # the root (empty) path as an argument, bare and with modifiers, also inside list / mapping arguments
        ("path.root", "Value.equal_to(DataPath())", []),
        ("path.root.length", "Value.equal_to(DataPath().length())", []),
        ("path.root.map_keys", "Value.in_(DataPath().map_keys())", []),
        ("path.root.under_dtype", "Value.dtype.equal_to(DataPath().dtype())", []),
        ("path.root.in_list", "Value.in_([i, DataPath().length()])", [("i", "int")]),
        ("path.root.in_kwargs", "Value.items_contain(k=DataPath().length())", []),
        ("path.root.in_tree", "Value.equal_to(i) | (Value.equal_to(DataPath().length()) & Value.is_instance(int))", [("i", "int")]),
        # 'path' more than once in one key
        ("literal.path_twice", "Value.equal_to({'path/subpath': a})", [("a", U)]),
        ("literal.path_twice.caps", "Value.in_([{'PATH to Path': a}, 1])", [("a", U)]),
        ("literal.path_twice.suffix", "Value.items_contain(k={'path.map_keys.path': [a]})", [("a", U)]),
    ]
    for cid, expr, extra, *more in path_args:
        params = extra + [("u1", U)]
        names = ", ".join(p[0] for p in params)
        body = f"""
c = {expr}
doc = {pdoc if 'literal' in cid else "[u1, 0, 'a']"}
{ASSERT.replace("ok = ok and same('both filter identically', r.filter(doc).result, c.filter(doc).result)", "ok = ok and same('both filter identically', r.filter(doc).result, c.filter(doc).result)" if 'literal' in cid else "ok = ok and same('both validate identically', summarize_test(Rule(('x',), r).test(RDOC)), summarize_test(Rule(('x',), c).test(RDOC)))")}
"""
        body = body.replace("RDOC", "{'x': u1, 'a': {'k': 1, '': 2}, 'l': [1, u1], 'lo': 0, 'hi': [5], 'lim': {'k': 3}, 'ref': 2, 'm': {'x': 'ab'}}"
                            if cid != "path.combined_part" else "{'x': u1, 'a': {'k': 1, 'j': 2}}")
        out.append(mk_case(f"c11.arg.{cid}", params, body, pre=[f"BU({L}, {names})"] + list(more), stubs=["sym_repr"]))
    # nested combinations
    for op1 in ("and", "or", "xor"):
        for op2 in ("and", "or", "xor"):
            sym = {"and": "&", "or": "|", "xor": "^"}
            body = f"""
c = (Value.greater_than(t) {sym[op1]} (Value.dtype.in_([int, str]) {sym[op2]} Value.length.less_than(n))) {sym[op1]} Value.is_instance(int, bool)
doc = [u1, 'ab', None]
{ASSERT}
"""
            out.append(mk_case(f"c11.tree.{op1}.{op2}", [("t", "int"), ("n", "int"), ("u1", U)], body, pre=[f"BU({L}, t, n, u1)"], stubs=["sym_repr"]))
    body = f"""
c = (Key.equal_to(k) & Value.keys_contain_N_of(n, ['k', 'j'])) | (Key.dtype.equal_to(int) ^ Value.items_contain(k=a))
doc = {{'a': u1, 2: {{'k': a}}, '': 1}}
{ASSERT}
"""
    out.append(mk_case("c11.tree.mixed_kinds", [("k", "str"), ("n", "int"), ("a", "int"), ("u1", U)], body, pre=[f"BU({L}, k, n, a, u1)"], stubs=["sym_repr"]))
    # history: what was parsed / serialised earlier in the process must not matter
    seqs = [
        ["Value.length.equal_to(n)", "Value.keys_contain('k')", "Value.required_keys('k', 'j')", "Value.length.greater_than(n) & Value.items_contain(k=n)"],
        ["Key.dtype.equal_to(str)", "Key.keys_contain('k')", "Value.dtype.in_([int, bool])", "Value.allowed_keys('k')", "Value.keys_contain_N_of(n, ['k', 'j'])"],
        ["Value.keys_contain('k')", "Value.length.less_than(n)", "Value.is_instance(bool, int)", "Value.dtype.equal_to(bool)"],
    ]
    for sn, seq in enumerate(seqs):
        for order in ("fwd", "rev"):
            items = seq if order == "fwd" else list(reversed(seq))
            lines = "\n".join(f"""c = {src}
js = c.to_json_like()
ok = ok and note('step {i}: pure JSON', is_json_pure(js)) and note('step {i}: rebuilt equals the original', ConditionLike.from_json_like(js) == c)
ok = ok and same('step {i}: re-serialisation', tx(ConditionLike.from_json_like(js).to_json_like()), tx(js))""" for i, src in enumerate(items))
            body = f"""
ok = True
{lines}
return ok
"""
            out.append(mk_case(f"c11.history.{sn}.{order}", [("n", "int")], body, pre=["I64(n)"], stubs=["sym_repr"]))
    body = f"""
c = NullCondition()
doc = [u1]
{ASSERT}
"""
    out.append(mk_case("c11.null", [("u1", U)], body, pre=[f"BU({L}, u1)"], stubs=["sym_repr"]))
    return out
