"""C12 - serialised data paths rebuild to an equivalent path, or serialisation refuses."""
from engine.runner import mk_case
from props.C03 import DOCS

U = "Union[int, bool, None, str]"

ASSERT = """
refused = False
try:
    specs = path.to_part_specs()
except Exception:
    refused = True
if refused:
    return True      # serialisation may refuse; it must never emit specs of a different path
ok = note('specs are pure JSON data', PURE(specs))
rebuilt = DataPath.from_part_specs(*specs)
def norm(x):
    # a concrete path presents its selection as a single (node, path) or None, a non-concrete one as a list
    return [] if x is None else ([x] if type(x) is tuple else x)
a = norm(path.get_data(doc, return_paths=True))
b = norm(rebuilt.get_data(doc, return_paths=True))
ok = ok and same_objs('same nodes', [v for v, _ in a], [v for v, _ in b]) and same('same concrete paths', tx([p for _, p in a]), tx([p for _, p in b]))
ok = ok and same('to_json_like is the same serialisation', tx(path.to_json_like()), tx(specs))
FROMSPEC
if ok and concrete_run():
    specs2 = json_text_roundtrip(specs)
    ok = ok and same('survives real JSON text', tx(specs2), tx(specs)) and note('rebuilt from JSON text', DataPath.from_part_specs(*specs2) == rebuilt)
return ok
"""


def BOUNDS(ctx):
    return {
        "paths": "API-built paths of 1-3 parts over: primitive str/int/bool/float parts; bare and conditioned MapValue / ListValue / "
                 "MapOrListValue incl. non-equality key/index conditions, value conditions, and/or-combined conditions, differing "
                 "key vs index in one map-or-list part, labels; and the same paths built from specs (must additionally compare equal)",
        "documents": "C03's heterogeneous skeletons with symbolic leaves",
        "symbolic": "keys, indices, thresholds, labels, document leaves",
        "refusal": "any exception from to_part_specs counts as refusing (allowed by the property)",
        "outside": "paths built by DataPath.from_str (their Key.in_ arguments are tuples, not JSON-representable: behaviour is "
                   "compared, equality is not demanded)",
    }


API_PATHS = [
    ("prim.str", "DataPath(s)", [("s", "str")], "dm"),
    ("prim.int", "DataPath(i)", [("i", "int")], "dl"),
    ("prim.bool", "DataPath(bl)", [("bl", "bool")], "di"),
    ("prim.float", "DataPath(1.5, 0)", [], "dk"),
    ("prim.mixed", "DataPath('a', 'c', i)", [("i", "int")], "dm"),
    ("map.bare", "DataPath(MapValue(), 'b')", [], "dm"),
    ("list.bare", "DataPath('l', ListValue())", [], "dm"),
    ("mol.bare", "DataPath(MapOrListValue(), MapOrListValue())", [], "dl"),
    ("map.key_eq", "DataPath(MapValue(key=k), 'b')", [("k", "str")], "dm"),
    ("map.key_ne", "DataPath(MapValue(key=Key.not_equal_to(k)))", [("k", "str")], "dm"),
    ("map.key_int", "DataPath(MapOrListValue(), MapValue(key=i))", [("i", "int")], "di"),
    ("map.key_int.root", "DataPath(MapValue(key=i), 'b')", [("i", "int")], "di"),
    ("map.key_bool", "DataPath(MapOrListValue(), MapValue(key=bl))", [("bl", "bool")], "di"),
    ("map.key_float", "DataPath(MapOrListValue(), MapValue(key=1.0))", [], "di"),
    ("list.index_int.under_fanout", "DataPath(MapOrListValue(), ListValue(index=n))", [("n", "int")], "di"),
    ("map.key_in", "DataPath(MapValue(key=Key.in_([k, 'l'])), 0)", [("k", "str")], "dm"),
    ("map.key_dtype", "DataPath(MapValue(key=Key.dtype.equal_to(str)))", [], "di"),
    ("map.value", "DataPath(MapValue(value=Value.greater_than(t)))", [("t", "int")], "dm"),
    ("map.value_eq", "DataPath(MapValue(value=Value.equal_to(t)))", [("t", "int")], "di"),
    ("map.key+value", "DataPath(MapValue(key=k, value=Value.is_instance(dict)), 'b')", [("k", "str")], "dm"),
    ("map.tree", "DataPath(MapValue(condition=(Key.not_equal_to(k) | Value.is_instance(list)) & Value.truthy()))", [("k", "str")], "dm"),
    ("map.label", "DataPath(MapValue(label=lab), 'b')", [("lab", "str")], "dm"),
    ("map.key+label", "DataPath(MapValue(key=k, label=lab))", [("k", "str"), ("lab", "str")], "dm"),
    ("list.index_eq", "DataPath('l', ListValue(n))", [("n", "int")], "dm"),
    ("list.index_eq.on_map", "DataPath(ListValue(n))", [("n", "int")], "di"),
    ("list.index_lt", "DataPath('l', ListValue(index=Index.less_than(n)))", [("n", "int")], "dm"),
    ("list.value", "DataPath(ListValue(value=Value.equal_to(e1)))", [("e1", U)], "dl"),
    ("list.index+value", "DataPath(ListValue(index=Index.greater_than(n), value=Value.is_instance(list, dict)), MapOrListValue())", [("n", "int")], "dl"),
    ("list.label", "DataPath(ListValue(label=lab))", [("lab", "str")], "dl"),
    ("mol.key_index_differ", "DataPath(MapOrListValue(key=k, index=n))", [("k", "str"), ("n", "int")], "dm"),
    ("mol.key_index_differ.list", "DataPath(MapOrListValue(key=k, index=n))", [("k", "str"), ("n", "int")], "dl"),
    ("mol.int_key_index_differ", "DataPath(MapOrListValue(key=i, index=n))", [("i", "int"), ("n", "int")], "di"),
    ("mol.key_index_differ.mid", "DataPath('a', MapOrListValue(key=k, index=n))", [("k", "str"), ("n", "int")], "dm"),
    ("mol.key_index_differ.mid.list", "DataPath('l', MapOrListValue(key=k, index=n), 'b')", [("k", "str"), ("n", "int")], "dm"),
    ("mol.float_key_index_differ.mid", "DataPath(MapOrListValue(), MapOrListValue(key=1.5, index=1))", [], "di"),   # (a float against a symbolic int stalls z3)
    ("part.cond_or+index+value", "DataPath('l', ListValue(index=Index.greater_than(n), value=Value.is_instance(int, dict), condition=Value.less_than(t) | Value.greater_than(t)))", [("n", "int"), ("t", "int")], "dm"),
    ("part.cond_xor+key+value", "DataPath(MapValue(key=Key.not_equal_to(k), value=Value.is_instance(dict, list), condition=Value.length.equal_to(n) ^ Value.length.equal_to(2)))", [("k", "str"), ("n", "int")], "dm"),
    ("part.tree_left_chain", "DataPath(MapValue(condition=((Key.equal_to(k) | Value.is_instance(list)) & Value.truthy()) & Key.not_equal_to('l')))", [("k", "str")], "dm"),
    ("typeargs.keys_is_instance", "DataPath(MapValue(value=Value.keys_is_instance(str)))", [], "dm"),
    ("typeargs.keys_is_instance.tree", "DataPath('l', ListValue(value=Value.keys_is_instance(str, int) | Value.is_instance(list)))", [], "dm"),
    ("typeargs.is_instance+dtype", "DataPath(MapValue(key=Key.dtype.equal_to(str), value=Value.is_instance(dict, list) & Value.dtype.not_equal_to(bool)))", [], "dm"),
    ("mol.key_only", "DataPath(MapOrListValue(key=i))", [("i", "int")], "dl"),
    ("mol.index_only", "DataPath(MapOrListValue(index=n))", [("n", "int")], "di"),
    ("mol.value", "DataPath(MapOrListValue(value=Value.greater_than(t)))", [("t", "int")], "dl"),
    ("mol.int+value", "DataPath(MapOrListValue(key=i, index=i, value=Value.greater_than(t)))", [("i", "int"), ("t", "int")], "dl"),
    ("mol.conds", "DataPath(MapOrListValue(list_condition=Index.less_than(n), map_condition=Key.not_equal_to(k)))", [("n", "int"), ("k", "str")], "dm"),
    ("mol.label", "DataPath(MapOrListValue(key=i, index=i, label=lab))", [("i", "int"), ("lab", "str")], "dl"),
    ("three", "DataPath(MapValue(key=Key.not_equal_to(k)), 'c', ListValue(value=Value.greater_than(t)))", [("k", "str"), ("t", "int")], "dm"),
    ("maparg.literal_nested", "DataPath('l', ListValue(value=Value.equal_to({'b': u2, 'src': {'path': [t]}})))", [("t", "int")], "dm"),
    ("maparg.kwargs_literal", "DataPath('l', ListValue(value=Value.items_contain(b={'path.first': [t]})))", [("t", "int")], "dm"),
    ("maparg.datapath_value", "DataPath('l', ListValue(value=Value.items_contain(b=DataPath('l', 0))))", [], "dm"),
    ("tuplearg.value_eq", "DataPath('a', MapValue(value=Value.equal_to((u2, u3))))", [], "dm"),
    ("tuplearg.value_in", "DataPath('l', ListValue(value=Value.in_([(u3,), 5])))", [], "dm"),
    ("tuplearg.value_ne", "DataPath('a', MapValue(value=Value.not_equal_to((u2, u3))))", [], "dm"),
    # membership in a *string* argument is a sub-string test and must stay one (not be written as a list of characters)
    ("strarg.value_in", "DataPath(MapValue(value=Value.in_('ab')))", [], "dm"),
    ("strarg.value_not_in", "DataPath('a', MapValue(value=Value.not_in('ab')))", [], "dm"),
    ("strarg.key_in", "DataPath(MapValue(key=Key.in_('abc')), 'b')", [], "dm"),
    ("strarg.empty", "DataPath('l', ListValue(value=Value.in_('')))", [], "dm"),
    # the `null` callable is an ordinary leaf, not "no condition": with a length pre-processor it selects only sized items, as the
    # generic condition of a map-or-list part a key- / index-kind null selects in one container kind only
    ("nullcallable.length", "DataPath('l', ListValue(value=Value.length.null()))", [], "dm"),
    ("nullcallable.length.map", "DataPath(MapValue(value=Value.length.null()), MapOrListValue(value=Value.length.null()))", [], "dm"),
    ("nullcallable.mol.key", "DataPath(MapOrListValue(condition=Key.null()), MapOrListValue(condition=Key.null()))", [], "dm"),
    ("nullcallable.mol.index", "DataPath(MapOrListValue(condition=Index.null()), MapOrListValue(condition=Index.null()))", [], "dl"),
    ("nullcallable.value", "DataPath('l', ListValue(value=Value.null()))", [], "dm"),
    ("nullcallable.key.tree", "DataPath(MapValue(key=Key.null() ^ Key.equal_to('a')))", [], "dm"),
    ("from_str", "DataPath.from_str('a/c/1')", [], "dm"),
    ("from_str.float", "DataPath.from_str('1.5/0')", [], "dk"),
    ("combined.deepcopy", "DataPath.from_part_specs('a', MapValue(key=Key.not_equal_to(k), value=Value.greater_than(t)))", [("k", "str"), ("t", "int")], "dm"),
]
SPEC_PATHS = [
    ("prims", "('a', s, i)", [("s", "str"), ("i", "int")], "dm"),
    ("bare", "('l', {'type': 'list_value'}, {'type': 'map_value'})", [], "dm"),
    ("mol.default", "({}, {'type': 'map_or_list_value'})", [], "dl"),
    ("key.short", "({'type': 'map_value', 'key.equal_to': k}, 'b')", [("k", "str")], "dm"),
    ("key.ne", "({'type': 'map_value', 'key.not_equal_to': k},)", [("k", "str")], "dm"),
    ("key.int", "({}, {'type': 'map_value', 'key.equal_to': i})", [("i", "int")], "di"),
    ("key.int.long", "({}, {'type': 'map_value', 'condition': {'key.equal_to': i}})", [("i", "int")], "di"),
    ("value.long", "({'type': 'map_value', 'value': {'value.gt': t}},)", [("t", "int")], "dm"),
    ("key+value+cond", "({'type': 'map_value', 'condition': {'value.truthy': None}, 'key': {'key.not_equal_to': k}, 'value': {'value.dtype.in': ['int', 'dict']}},)", [("k", "str")], "dm"),
    ("index.lt", "('l', {'type': 'list_value', 'index.less_than': n})", [("n", "int")], "dm"),
    ("index.eq", "('l', {'type': 'list_value', 'index.equal_to': n})", [("n", "int")], "dm"),
    ("label", "({'type': 'map_value', 'label': lab, 'key.eq': k},)", [("lab", "str"), ("k", "str")], "dm"),
    ("mol.all", "({'key.not_equal_to': k, 'index.lt': n, 'value': {'value.is_instance': ['list', 'dict', 'int']}, 'label': 'L1'},)", [("k", "str"), ("n", "int")], "ds"),
    ("mol.conds", "({'list_condition': {'index.gt': n}, 'map_condition': {'key.dtype.eq': 'str'}},)", [("n", "int")], "dm"),
    ("patharg", "({'type': 'map_value', 'value': {'value.in': [{'path': ['l', 0]}, t]}},)", [("t", "int")], "dm"),
    ("maparg.escaped_nested", "('l', {'type': 'list_value', 'value': {'value.items_contain': {'b': {'\\\\path': [t]}}}})", [("t", "int")], "dm"),
    ("maparg.path_nested", "({'type': 'map_value', 'value': {'value.equal_to': {'b': {'path': ['l', 0]}, 'c': [t, 3]}}},)", [("t", "int")], "dm"),
]
DOCS12 = dict(DOCS)
DOCS12['ds'] = "[u1, {'a': u2}, [u3]]"
DOCS12['di'] = "{True: {'b': u1, 0: 5}, 0: u2, 2: {'a': u2, 'b': 3, 2: 9}, -2: u3, None: [u3, {1: 0}, 7], 'b': [u1, 8, 9]}"


def cases(ctx):
    L = 2 if ctx.quick else 3
    out = []
    api_paths = list(API_PATHS)
    spec_paths = list(SPEC_PATHS)
    if not ctx.quick:
        floaty = ("prim.float", "from_str.float", "map.key_float")
        api_paths += [(f"{cid}@{d}", expr, extra, d) for cid, expr, extra, docid in API_PATHS for d in ("dm", "dl", "di", "ds")
                      if d != docid and cid not in floaty
                      and not (d == "dm" and cid in ("map.key_int", "map.key_bool"))]   # a symbolic int / bool key against dm's float key 1.5 stalls z3
        spec_paths += [(f"{cid}@{d}", specs, extra, d) for cid, specs, extra, docid in SPEC_PATHS for d in ("dm", "dl", "di", "ds") if d != docid]
    for cid, expr, extra, docid in api_paths:
        params = extra + [("u1", U), ("u2", "int"), ("u3", "int")]
        names = ", ".join(p[0] for p in params)
        # tuple arguments (DataPath.from_str builds them; tuples as compared values) are not JSON-representable: the specs
        # are rebuilt from the Python structures, purity / real JSON text are not demanded, silent divergence is still refused
        lenient = 'from_str' in cid or 'tuplearg' in cid
        body = f"""
path = {expr}
doc = {DOCS12[docid]}
{(ASSERT if not lenient else ASSERT[:ASSERT.index('if ok and concrete_run()')] + 'return ok').replace('FROMSPEC', '').replace('PURE', 'is_json_compatible' if lenient else 'is_json_pure')}
"""
        out.append(mk_case(f"c12.api.{cid}", params, body, pre=[f"BU({L}, {names})"], stubs=["sym_repr"]))
    for cid, specs, extra, docid in spec_paths:
        params = extra + [("u1", U), ("u2", "int"), ("u3", "int")]
        names = ", ".join(p[0] for p in params)
        body = f"""
path = DataPath.from_part_specs(*{specs})
doc = {DOCS12[docid]}
{ASSERT.replace('FROMSPEC', "ok = ok and note('a path built from specs is rebuilt equal', rebuilt == path)").replace('PURE', 'is_json_pure')}
"""
        out.append(mk_case(f"c12.spec.{cid}", params, body, pre=[f"BU({L}, {names})"], stubs=["sym_repr"]))
    # history: the caller edits the specs it was handed; a later serialisation (of this path, or of a path sharing the
    # part object) must not be affected
    for cid, expr, edit, docid in [
        ("key_in", "DataPath('a', MapValue(key=Key.in_([k, 'c'])))", "s1[1]['condition']['key.in_'].append('b')", "dm"),
        ("value_tree", "DataPath(MapValue(condition=Key.not_equal_to(k) & Value.is_instance(dict)), 'b')", "s1[0]['condition']['and'].pop()", "dm"),
        ("label", "DataPath('l', ListValue(index=Index.less_than(n), label='L'))", "s1[1]['label'] = 'changed'\ns1[1]['condition']['index.less_than'] = 0", "dm"),
    ]:
        params = [("k", "str"), ("n", "int"), ("u1", U), ("u2", "int"), ("u3", "int")]
        body = f"""
path = {expr}
doc = {DOCS12[docid]}
s1 = path.to_part_specs()
snap = tx(s1)
sel = outcome(lambda: path.get_data(doc, return_paths=True))
{edit}
s2 = path.to_part_specs()
ok = same('second serialisation is unaffected by edits to the first', tx(s2), snap)
shared = path / ListValue()
s3 = shared.to_part_specs()
ok = ok and same('a path sharing the part serialises it faithfully', tx(s3[:len(s2)]), snap)
ok = ok and same('rebuilt from the second serialisation selects the same', outcome(lambda: DataPath.from_part_specs(*s2).get_data(doc, return_paths=True)), sel)
return ok
"""
        out.append(mk_case(f"c12.history.{cid}", params, body, pre=[f"BU({L}, k, n, u1, u2, u3)"], stubs=["sym_repr"]))
    # history: what was serialised earlier in the process (parts whose keys compare equal across types: 1.0 / True / 1,
    # 0.0 / False / 0) must not change how a later path is written
    for cid, first, expr, extra in [
        ("float_then_bool", ["DataPath(1.0, 0)", "DataPath(0.0, 'b')"], "DataPath(MapOrListValue(), MapValue(key=bl))", [("bl", "bool")]),
        ("bool_then_float", ["DataPath(True, 'b')", "DataPath(MapOrListValue(), MapValue(key=False))"], "DataPath(MapOrListValue(), MapValue(key=1.0))", []),
        ("int_then_bool", ["DataPath(1, 'b')", "DataPath(0)"], "DataPath(MapOrListValue(), MapValue(key=bl))", [("bl", "bool")]),
        ("bool_then_int", ["DataPath(MapValue(key=True), 'b')", "DataPath(MapOrListValue(), MapValue(key=False))"], "DataPath(MapOrListValue(), i)", [("i", "int")]),
        ("float_then_int", ["DataPath(1.0)", "DataPath(MapOrListValue(), 2.0)"], "DataPath(MapOrListValue(), MapOrListValue(key=i, index=i))", [("i", "int")]),
    ]:
        params = extra + [("u1", U), ("u2", "int"), ("u3", "int")]
        names = ", ".join(p[0] for p in params)
        firsts = "\n".join(f"_ = {f}.to_part_specs()" for f in first)
        body = f"""
{firsts}
path = {expr}
doc = {DOCS12['di']}
{ASSERT.replace('FROMSPEC', '').replace('PURE', 'is_json_pure')}
"""
        out.append(mk_case(f"c12.history.order.{cid}", params, body, pre=[f"BU({L}, {names})"] + (["0 <= i <= 2"] if extra == [("i", "int")] else []), stubs=["sym_repr"]))
    for cid, expr, extra, docid in [
        ("length.first", "DataPath(MapValue(key=Key.not_equal_to(k))).length().first()", [("k", "str")], "dm"),
        ("map_keys", "DataPath('a').map_keys()", [], "dm"),
        ("dtype.all", "DataPath(ListValue(index=Index.less_than(n))).dtype().all()", [("n", "int")], "dl"),
        ("last", "DataPath('l', ListValue(value=Value.is_instance(int, str))).last()", [], "dm"),
        ("plain", "DataPath('a', s)", [("s", "str")], "dm"),
    ]:
        params = extra + [("u1", "int"), ("u2", "int"), ("u3", "int")]
        names = ", ".join(p[0] for p in params)
        body = f"""
path = {expr}
doc = {DOCS12[docid]}
spec = path.to_spec()
ok = note('path spec is pure JSON data', is_json_pure(spec))
rebuilt = DataPath.from_spec(spec)
ok = ok and note('rebuilt path (with modifiers) equals the original', rebuilt == path)
ok = ok and same('same selection', outcome(lambda: rebuilt.get_data(doc, return_paths=True)), outcome(lambda: path.get_data(doc, return_paths=True)))
return ok
"""
        out.append(mk_case(f"c12.to_spec.{cid}", params, body, pre=[f"BU({L}, {names})"], stubs=["sym_repr"]))
    return out
