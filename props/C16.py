"""C16 - parsing a spec does not change the spec; re-parsing gives the same object."""
from engine.runner import mk_case

U = "Union[int, bool, None, str]"

TABLES = "(tx(dict(valida.casting.CAST_LOOKUP)), tx(dict(valida.casting.CAST_DTYPE_LOOKUP)), tx(dict(valida.conditions.INV_DTYPE_LOOKUP)))"


def BOUNDS(ctx):
    return {
        "entry points": "ConditionLike.from_spec / from_json_like, ContainerValue.from_spec, DataPath.from_spec / from_part_specs, "
                        "Rule.from_spec / from_json_like, Schema.from_json_like",
        "spec generators": "C09/C10 forms: scalar / list / tuple / mapping arguments, data-path arguments (top level, inside list and "
                           "mapping arguments, with suffixes), escaped '\\\\path' keys, and/or/xor lists, part specs with long forms, "
                           "shorthands and labels, path specs, rule specs with casts and every doc shape",
        "one-step claim": "type-exact deep snapshot of the caller's spec before == after; the second parse of the same structure "
                          "equals the first; a third parse equals too; module tables CAST_LOOKUP / CAST_DTYPE_LOOKUP / "
                          "INV_DTYPE_LOOKUP unchanged - hence any number of repeated parses",
        "symbolic": "argument values, keys, labels, primitive parts inside the specs",
    }


def parse_case(cid, params, pres, spec_src, parser, L, probe=None):
    body = f"""
spec = {spec_src}
before = tx(spec)
tables = {TABLES}
first = {parser}(spec)
ok = note('spec type-exactly unchanged by parsing', tx(spec) == before)
second = {parser}(spec)
ok = ok and note('second parse equals the first', second == first and type(second) is type(first))
ok = ok and note('spec unchanged by the second parse', tx(spec) == before)
third = {parser}(spec)
ok = ok and note('third parse equals the first', third == first)
ok = ok and note('module tables unchanged', {TABLES} == tables)
{('ok = ok and same("both parses behave alike", ' + probe.replace('OBJ', 'first') + ', ' + probe.replace('OBJ', 'second') + ')') if probe else ''}
return ok
"""
    return mk_case(cid, params, body, pre=pres, stubs=["sym_repr"])


def cases(ctx):
    L = 2 if ctx.quick else 3
    out = []
    CF = "ConditionLike.from_spec"
    fprobe = "OBJ.filter([u1, 0, 'a']).result"
    cond_specs = [
        ("scalar", [("a", U)], "{'value.equal_to': a}"),
        ("list", [("a", U)], "{'value.in': [a, 1, 'x']}"),
        ("tuple", [("lo", "int"), ("hi", "int")], "{'value.in_range': (lo, hi)}", "0 <= hi - lo <= 2"),
        ("map", [("lo", "int"), ("hi", "int")], "{'value.in_range': {'lower': lo, 'upper': hi}}", "0 <= hi - lo <= 2"),
        ("none", [], "{'value.truthy': None}"),
        ("types", [], "{'value.is_instance': ['int', str]}"),
        ("dtype", [], "{'value.dtype.in': ['int', 'STR']}"),
        ("kw", [("a", U)], "{'value.items_contain': {'k': a, 'j': [a]}}"),
        ("n_of", [("n", "int")], "{'value.keys_contain_N_of': {'N': n, 'keys': ['k', 'j']}}"),
        ("tree", [("a", "int"), ("t", "int")], "{'and': [{'value.gt': t}, {'or': [{'value.eq': a}, {}]}, {'value.in': [a, None]}]}"),
        ("path.scalar", [("s", "str")], "{'value.equal_to': {'path': ['a', s]}}"),
        ("path.suffix", [("s", "str")], "{'value.equal_to': {'path.length': ['a', s]}}"),
        ("path.in_list", [("s", "str"), ("t", "int")], "{'value.in': [{'path': [s]}, t]}"),
        ("path.in_map", [("s", "str"), ("t", "int")], "{'value.equal_to_approx': {'value': {'path': [s, 0]}, 'tolerance': t}}"),
        ("path.in_kw", [("s", "str")], "{'value.items_contain': {'k': {'path': [s]}}}"),
        ("path.parts", [("t", "int")], "{'value.equal_to': {'path.first': ['a', {'type': 'list_value', 'value.gt': t}]}}"),
        ("escaped", [("a", U)], "{'value.equal_to': {'\\\\path': [a, 2]}}"),
        ("escaped.suffix", [("a", U)], "{'value.equal_to': {'\\\\path.length': [a]}}"),
        ("escaped.in_list", [("a", U)], "{'value.in': [{'\\\\path': [a]}, 1]}"),
        ("escaped.in_kw", [("a", U)], "{'value.items_contain': {'k': {'\\\\path': [a]}}}"),
        ("path.in_kwlist", [("s", "str"), ("n", "int")], "{'value.keys_contain_N_of': {'N': n, 'keys': ['a', {'path': [s]}]}}"),
        ("escaped.in_kwlist", [("a", U), ("n", "int")], "{'value.keys_contain_at_least_N_of': {'N': n, 'keys': ['a', {'\\\\path': [a]}]}}"),
        ("escaped.in_list_in_map", [("a", U)], "{'value.equal_to': {'k': [{'\\\\path': [a]}, 1], 'j': 0}}"),
        ("literal_map", [("a", U)], "{'value.equal_to': {'k': a, 'j': {'x': [a]}}}"),
    ]
    for cid, extra, spec, *more in cond_specs:
        params = extra + [("u1", U)]
        names = ", ".join(p[0] for p in params)
        out.append(parse_case(f"c16.cond.{cid}", params, [f"BU({L}, {names})"] + list(more), spec, CF, L, probe=None if "path" in cid and "escaped" not in cid else fprobe))
    out.append(parse_case("c16.cond.json_like", [("a", U), ("u1", U)], [f"BU({L}, a, u1)"], "{'value.in': [a, 1]}", "ConditionLike.from_json_like", L, probe=fprobe))
    # parts
    pm = "OBJ.filter({'a': u1, 'b': 0}).keys"
    part_specs = [
        ("map.bare", [], "{'type': 'map_value'}"),
        ("mol.empty", [], "{}"),
        ("map.short", [("k", "str"), ("t", "int")], "{'type': 'map_value', 'key.eq': k, 'value.gt': t}"),
        ("map.long", [("k", "str"), ("t", "int")], "{'type': 'map_value', 'key': {'key.eq': k}, 'value': {'value.gt': t}, 'condition': {'value.truthy': None}}"),
        ("map.label", [("lab", "str")], "{'type': 'map_value', 'label': lab}"),
        ("mol.all", [("k", "str"), ("n", "int"), ("lab", "str")], "{'key.eq': k, 'index.lt': n, 'list_condition': {'index.gt': 0}, 'map_condition': {'key.dtype.eq': 'str'}, 'label': lab}"),
        ("map.value.patharg", [("s", "str")], "{'type': 'map_value', 'value': {'value.in': [{'path': [s]}, 1]}}"),
        # a combination LIST as the part's own condition, next to shorthand / long-form key and value conditions (which are
        # and-combined with it): the caller's nested operand list stays as it is
        ("map.andlist+short", [("k", "str"), ("t", "int")], "{'type': 'map_value', 'condition': {'and': [{'value.truthy': None}, {'value.is_instance': ['int']}]}, 'key.eq': k, 'value.gt': t}"),
        ("map.andlist+long", [("k", "str"), ("t", "int")], "{'type': 'map_value', 'condition': {'and': [{'key.dtype.eq': 'str'}, {'key.length.lt': 3}]}, 'key': {'key.not_equal_to': k}, 'value': {'value.gt': t}}"),
        ("map.orlist+short", [("k", "str"), ("t", "int")], "{'type': 'map_value', 'condition': {'or': [{'value.falsy': None}, {'value.gt': t}]}, 'key.eq': k}"),
        ("mol.andlist.both", [("k", "str"), ("n", "int")], "{'condition': {'and': [{'value.truthy': None}, {'value.is_instance': ['int', 'str']}]}, 'list_condition': {'and': [{'index.lt': n}, {'index.gt': -1}]}, 'map_condition': {'and': [{'key.not_equal_to': k}]}, 'key.length.lt': 3, 'index.gte': 0, 'value.not_equal_to': None}"),
        ("map.andtuple+short", [("k", "str"), ("t", "int")], "{'type': 'map_value', 'condition': {'and': ({'value.truthy': None}, {'value.not_equal_to': t})}, 'key.not_equal_to': k}"),
    ]
    for cid, extra, spec in part_specs:
        params = extra + [("u1", U)]
        names = ", ".join(p[0] for p in params)
        out.append(parse_case(f"c16.part.{cid}", params, [f"BU({L}, {names})"], spec, "ContainerValue.from_spec", L, probe=pm))
    out.append(parse_case("c16.part.list", [("n", "int"), ("t", "int"), ("u1", U)], [f"BU({L}, n, t, u1)"],
                          "{'type': 'list_value', 'index.lt': n, 'value': {'value.gt': t}}", "ContainerValue.from_spec", L, probe="OBJ.filter([u1, 0]).keys"))
    out.append(parse_case("c16.part.list.andlist+short", [("n", "int"), ("t", "int"), ("u1", U)], [f"BU({L}, n, t, u1)"],
                          "{'type': 'list_value', 'condition': {'and': [{'index.gte': 0}, {'value.not_equal_to': None}]}, 'index.lt': n, 'value.gt': t}", "ContainerValue.from_spec", L, probe="OBJ.filter([u1, 0, 5]).keys"))
    # paths
    gp = "outcome(lambda: OBJ.get_data({'a': {'b': u1}, 'l': [u1, 2]}, return_paths=True))"
    path_specs = [
        ("plain", [("s", "str")], "{'path': ['a', s]}", "DataPath.from_spec"),
        ("suffix", [("s", "str")], "{'path.length': ['a', s]}", "DataPath.from_spec"),
        ("parts", [("t", "int"), ("k", "str")], "{'path.first': [{'type': 'map_value', 'key.ne': k} if False else {'type': 'map_value', 'key.not_equal_to': k}, {'type': 'list_value', 'value.gt': t}]}", "DataPath.from_spec"),
        ("tuple", [("s", "str")], "{'path': ('a', s)}", "DataPath.from_spec"),
        ("json_like", [("s", "str")], "{'path.dtype': ['a', s]}", "DataPath.from_json_like"),
    ]
    for cid, extra, spec, parser in path_specs:
        params = extra + [("u1", U)]
        names = ", ".join(p[0] for p in params)
        out.append(parse_case(f"c16.path.{cid}", params, [f"BU({L}, {names})"], spec, parser, L, probe=gp))
    body_tpl = """
specs = {specs}
before = tx(specs)
first = DataPath.from_part_specs(*specs)
ok = note('part specs unchanged', tx(specs) == before)
second = DataPath.from_part_specs(*specs)
ok = ok and note('second parse equals the first', first == second) and note('unchanged again', tx(specs) == before)
return ok
"""
    out.append(mk_case("c16.path.part_specs", [("k", "str"), ("t", "int"), ("lab", "str")],
                       body_tpl.format(specs="['a', {'type': 'map_value', 'key.eq': k, 'label': lab}, 0, {'type': 'list_value', 'value': {'value.gt': t}}, {}]"),
                       pre=[f"BU({L}, k, t, lab)"], stubs=["sym_repr"]))
    # escaped path spec returns the un-escaped literal mapping (not a DataPath): the caller's mapping must survive
    body = """
spec = {'\\\\path': [a, 2]}
before = tx(spec)
first = DataPath.from_spec(spec)
ok = note('escaped spec unchanged', tx(spec) == before)
second = DataPath.from_spec(spec)
ok = ok and same('same result twice', tx(second), tx(first)) and same('un-escaped literal', tx(first), tx({'path': [a, 2]}))
ok = ok and note('unchanged again', tx(spec) == before)
return ok
"""
    out.append(mk_case("c16.path.escaped", [("a", U)], body, pre=[f"BU({L}, a)"], stubs=["sym_repr"]))
    # rules and schemas
    rdoc = "{'a': {'b': u1}, 's': 'true', 'n': '3'}"
    rprobe = f"summarize_test(OBJ.test({rdoc}))"
    docs = ["", ", 'doc': ' text \\n'", ", 'doc': ['one ', 'two']", ", 'doc': {'description': ' d '}",
            ", 'doc': {'description': ['d1 ', 'd2'], 'examples': [' e ']}", ", 'doc': {'examples': ['e ']}"]
    casts = ["", ", 'cast': {'str': 'bool'}", ", 'cast': {'str': 'int'}", ", 'cast': {}"]
    n = 0
    for di, d in enumerate(docs):
        for ci, c in enumerate(casts):
            if ctx.quick and (di + ci) % 2 and not (di == 1 and ci == 1):
                continue
            path = ["['s']", "['n']", "['a', 'b']", "[{'type': 'map_value', 'key.in': ['s', 'n']}]"][(di + ci) % 4]
            spec = f"{{'path': {path}, 'condition': {{'value.equal_to': t}}{c}{d}}}"
            out.append(parse_case(f"c16.rule.d{di}.c{ci}", [("t", "int"), ("u1", "Union[int, bool, None]")], [f"BU({L}, t, u1)"], spec,
                                  "Rule.from_spec", L, probe=rprobe))
    out.append(parse_case("c16.rule.patharg", [("s", "str"), ("u1", "Union[int, bool, None]")], [f"BU({L}, s, u1)"],
                          "{'path': ['a', 'b'], 'condition': {'value.in': [{'path': [s]}, 1]}, 'cast': {'str': 'int'}, 'doc': {'description': 'x '}}",
                          "Rule.from_json_like", L, probe=rprobe))
    sprobe = f"summarize_validation(OBJ.validate({rdoc}))"
    out.append(parse_case("c16.schema.json_like", [("t", "int"), ("u1", "Union[int, bool, None]")], [f"BU({L}, t, u1)"],
                          "[{'path': ['s'], 'condition': {'value.equal_to': True}, 'cast': {'str': 'bool'}, 'doc': 'flag '}, "
                          "{'path': ['n'], 'condition': {'value.gt': t}, 'cast': {'str': 'int'}, 'doc': {'description': ['n '], 'examples': [' 3']}}, "
                          "{'path': [{'type': 'map_value'}], 'condition': {}}]",
                          "Schema.from_json_like", L, probe=sprobe))
    return out
