"""C01 - a single condition filters every item to its documented meaning, never aborting."""
from engine.runner import mk_case
from engine import terms

U = "Union[int, bool, None, str]"
POOL = "('k', 'j', 'z')"

ASSERT = """
cond = build_cond(T)
fd = cond.filter(doc)
exp = ref_tree(T, doc)
items = ref_items(doc)
n = len(items)
ok = same('result', fd.result, exp)
ok = ok and same_objs('data', fd.data, [items[i][1] for i in range(n) if exp[i]])
ok = ok and same('keys', list(fd.keys), [items[i][0] for i in range(n) if exp[i]])
ok = ok and same('failure_indices', fd.failure_indices, [i for i in range(n) if not exp[i]])
ok = ok and note('one bool per item', len(fd.result) == n and all(type(r) is bool for r in fd.result))
return ok
"""


def BOUNDS(ctx):
    return {
        "leaf kinds": "all (datum kind, pre-processor, callable) triples found on the live classes (149 on the pinned tree)",
        "argument variants": "per callable: see props/C01.py variants(); quick = first variant(s), thorough = all",
        "documents": "<= 5 items; value-kind: list docs (thorough: also mapping docs); key-kind: mapping with concrete keys "
                     "of all five key types (thorough: one pooled symbolic str key); index-kind: list docs",
        "symbolic atoms": "<= 3 Union[int,bool,None,str] leaves/arguments, ints 64-bit, str len <= %d" % (2 if ctx.quick else 3),
        "pooled (hashed) atoms": "keys arguments of keys_* callables range over " + POOL,
        "floats": "symbolic only in the float-only equal_to_approx family; elsewhere concrete 1.5",
        "range width": "hi - lo <= 3 when a non-int datum makes `in range` iterate",
        "outside": "var-positional callables with zero keys (degenerate), NaN, ints beyond 64 bit, strings longer than the bound, "
                   "documents wider than 5 items or nested deeper than 2",
    }


def variants(name, dom, L):
    """[(vid, params, pres, args_src, kwargs_src)] for callable `name` on datum domain dom."""
    a_u = [("a", U)]
    a_i = [("a", "int")]
    V = []
    if dom == "type":
        T = ["int", "str", "bool", "list", "dict", "float", "type(None)"]
        if name in ("equal_to", "not_equal_to"):
            V = [(t.replace("(", "").replace(")", ""), [], [], [t], {}) for t in T]
        elif name in ("less_than", "greater_than", "less_than_or_equal_to", "greater_than_or_equal_to"):
            V = [("int", [], [], ["int"], {}), ("num", a_i, ["I64(a)"], ["a"], {})]
        elif name in ("in_", "not_in"):
            V = [("int_str", [], [], ["[int, str]"], {}), ("bool_none", [], [], ["[bool, type(None), list]"], {}),
                 ("scalar", [], [], ["int"], {})]
        elif name in ("in_range", "not_in_range"):
            V = [("w3", [("lo", "int"), ("hi", "int")], ["I64(lo, hi) and 0 <= hi - lo <= 3"], ["lo", "hi"], {})]
        elif name == "equal_to_approx":
            V = [("int", [("v", "int"), ("tol", "int")], ["I64(v, tol)"], ["v", "tol"], {})]
        elif name in ("factor_of", "has_factor"):
            V = [("int", [("v", "int")], ["I64(v)"], ["v"], {})]
        elif name in ("truthy", "falsy", "null"):
            V = [("noarg", [], [], [], {})]
        elif name == "is_instance":
            V = [("type", [], [], ["type"], {}), ("int", [], [], ["int"], {})]
        return V
    if dom == "int":
        if name in ("equal_to", "not_equal_to", "less_than", "greater_than", "less_than_or_equal_to", "greater_than_or_equal_to"):
            V = [("int", a_i, ["I64(a)"], ["a"], {}), ("u", a_u, [f"BU({L}, a)"], ["a"], {})]
        elif name in ("in_", "not_in"):
            V = [("list", [("a", "int"), ("b", "int")], ["I64(a, b)"], ["[a, b]"], {}), ("scalar", a_i, ["I64(a)"], ["a"], {})]
        elif name in ("in_range", "not_in_range"):
            V = [("int", [("lo", "int"), ("hi", "int")], ["I64(lo, hi)"], ["lo", "hi"], {}),
                 ("illtyped", [("hi", "int")], ["I64(hi)"], ["None", "hi"], {})]
        elif name == "equal_to_approx":
            V = [("int", [("v", "int"), ("tol", "int")], ["I64(v, tol)"], ["v", "tol"], {})]
        elif name in ("factor_of", "has_factor"):
            V = [("int", [("v", "int")], ["I64(v)"], ["v"], {})]
        elif name in ("truthy", "falsy", "null"):
            V = [("noarg", [], [], [], {})]
        elif name == "is_instance":
            V = [("int", [], [], ["int"], {}), ("str", [], [], ["str"], {})]
        return V
    # raw JSON-like datum
    if name in ("equal_to", "not_equal_to"):
        V = [("u", a_u, [f"BU({L}, a)"], ["a"], {}), ("list", a_u, [f"BU({L}, a)"], ["[a]"], {}),
             ("float", [], [], ["1.5"], {}), ("dict", a_u, [f"BU({L}, a)"], ["{'k': a}"], {})]
    elif name in ("less_than", "greater_than", "less_than_or_equal_to", "greater_than_or_equal_to"):
        V = [("u", a_u, [f"BU({L}, a)"], ["a"], {}), ("list", a_i, ["I64(a)"], ["[a, 1]"], {}),
             ("float", [], [], ["1.5"], {}), ("none", [], [], ["None"], {})]
    elif name in ("in_", "not_in"):
        V = [("list", [("a", U), ("b", "int")], [f"BU({L}, a, b)"], ["[a, b]"], {}),
             ("str", [("s", "str")], [f"len(s) <= {L}"], ["s"], {}),
             ("dict", [], [], ["{'k': 0, 1: 1, None: 2}"], {}),
             ("scalar", a_i, ["I64(a)"], ["a"], {}),
             ("strc", [], [], ["'ab'"], {})]
    elif name in ("in_range", "not_in_range"):
        V = [("w3", [("lo", "int"), ("hi", "int")], ["I64(lo, hi) and hi - lo <= 3"], ["lo", "hi"], {}),
             ("illtyped", [("hi", "int")], ["I64(hi)"], ["None", "hi"], {})]
    elif name == "equal_to_approx":
        V = [("int", [("v", "int"), ("tol", "int")], ["I64(v, tol)"], ["v", "tol"], {}),
             ("illtyped", [("v", "int")], ["I64(v)"], ["v", "None"], {})]
    elif name in ("factor_of", "has_factor"):
        V = [("int", [("v", "int")], ["I64(v)"], ["v"], {}), ("float", [], [], ["2.5"], {}), ("none", [], [], ["None"], {})]
    elif name in ("truthy", "falsy", "null"):
        V = [("noarg", [], [], [], {})]
    elif name == "is_instance":
        V = [("int", [], [], ["int"], {}), ("str_bool", [], [], ["str", "bool"], {}), ("dict_list", [], [], ["dict", "list"], {}),
             ("illtyped", [], [], ["5"], {})]
    elif name == "keys_contain":
        V = [("pooled", [("k1", "str")], [f"k1 in {POOL}"], ["k1"], {}), ("int", [], [], ["1"], {}),
             ("unhashable", [], [], ["[1]"], {})]
    elif name in ("keys_contain_any_of", "keys_contain_all_of", "keys_contain_one_of", "keys_equal_to", "allowed_keys",
                  "required_keys", "forbidden_keys"):
        V = [("pooled2", [("k1", "str"), ("k2", "str")], [f"k1 in {POOL} and k2 in {POOL}"], ["k1", "k2"], {}),
             ("mixed", [("k1", "str")], [f"k1 in {POOL}"], ["k1", "1", "None"], {}),
             ("unhashable", [], [], ["'k'", "[1]"], {})]
    elif name in ("keys_contain_N_of", "keys_contain_at_least_N_of", "keys_contain_at_most_N_of"):
        V = [("pooled1", [("n", "int"), ("k1", "str")], [f"I64(n) and k1 in {POOL}"], ["n", "[k1, 'j']"], {}),
             ("pooled2", [("n", "int"), ("k1", "str"), ("k2", "str")], [f"I64(n) and k1 in {POOL} and k2 in {POOL}"], ["n", "[k1, k2]"], {}),
             ("strkeys", [("n", "int")], ["I64(n)"], ["n", "'kjk'"], {}),
             ("illtyped", [], [], ["None", "['k', 'j']"], {})]
    elif name in ("keys_contain_at_least_one_of", "keys_contain_at_most_one_of"):
        V = [("pooled2", [("k1", "str"), ("k2", "str")], [f"k1 in {POOL} and k2 in {POOL}"], ["[k1, k2]"], {}),
             ("illtyped", [], [], ["5"], {})]
    elif name == "keys_is_instance":
        V = [("str", [], [], ["str"], {}), ("int_str", [], [], ["int", "str"], {}), ("illtyped", [], [], ["5"], {})]
    elif name == "items_contain":
        V = [("kw", a_u, [f"BU({L}, a)"], [], {"k": "a"}), ("kw2", [("a", U)], [f"BU({L}, a)"], [], {"k": "a", "j": "0"}),
             ("none", [], [], [], {})]
    return V


def docs(kind, dom, name, L, quick):
    """[(docid, params, pres, doc_src)]"""
    mapc = name in terms.MAPC
    uu = [("u1", U), ("u2", U)]
    bu = [f"BU({L}, u1, u2)"]
    D = []
    if kind == "value":
        if dom == "raw" and not mapc:
            if name in ("in_range", "not_in_range"):
                D.append(("li", [("u1", "int"), ("u2", U)], bu, "[u1, u2, [u1]]"))
            elif name == "equal_to_approx":
                D.append(("l", uu, bu, "[u1, u2, [u1], {'k': 0}]"))
            elif name in ("factor_of", "has_factor"):
                D.append(("l", [("u1", "int"), ("u2", "Optional[bool]")], bu, "[u1, u2, 0, [u1]]"))  # str items: see the conc/float docs
            else:
                D.append(("l", uu, bu, "[u1, u2, [u1], {'k': u2}]"))
            D.append(("m", uu, bu, "{'a': u1, 1: u2, None: [u1, 1], '': {}}"))
        elif dom == "raw":
            D.append(("l", [("u1", "int"), ("u2", U)], bu, "[{'k': u1, 'j': 0}, u2, {1: 2, 'z': 0}, {}]"))
            D.append(("m", uu, bu, "{'a': {'k': u1}, 1: u2, None: {None: 0, 'j': 1, 1: 2}}"))
        elif dom == "int" and name in ("in_", "not_in") and quick:
            D.append(("l", [("s1", "str"), ("u2", U)], [f"len(s1) <= {L}", f"BU({L}, u2)"], "[s1, [0, 0], {'k': 0}, u2]"))
        elif dom == "int":
            D.append(("l", [("s1", "str"), ("u1", U), ("u2", U)], [f"len(s1) <= {L}"] + bu, "[s1, [u1, 0], {'k': 0}, u2]"))
            D.append(("m", [("s1", "str"), ("u2", U)], [f"len(s1) <= {L}", f"BU({L}, u2)"], "{'a': s1, 1: u2, None: {}}"))
        else:
            D.append(("l", uu, bu, "[u1, u2, [0], {'k': 0}, 1.5]"))
            D.append(("m", uu, bu, "{'a': u1, 1: u2, None: None}"))
    elif kind == "key" and dom == "raw" and name in ("factor_of", "has_factor"):
        # string keys would be %-formatted with the symbolic argument (realises it): they are in the conc/float doc
        D.append(("mn", [("u1", U)], [f"BU({L}, u1)"], "{2: u1, True: 0, None: 1, 0: 2, -3: 3}"))
    elif kind == "key":
        D.append(("m", [("u1", U)], [f"BU({L}, u1)"], "{'a': u1, '': 1, 2: 2, None: 4, True: 5, 'abc': 6}"))
        D.append(("mp", [("p", "str")], ["p in ('a', '', 'zz')"], "{p: 0, 0: 1, 'k': 2}"))
    else:
        D.append(("l", [("u1", U)], [f"BU({L}, u1)"], "[u1, 0, 'x']"))
        D.append(("l1", [("u1", U)], [f"BU({L}, u1)"], "[u1]"))
    return D


def one_case(kind, pre, name, variant, doc, budget=None):
    vid, vparams, vpres, args, kwargs = variant
    did, dparams, dpres, doc_src = doc
    argsrc = ", ".join(list(args) + [f"{k}={v}" for k, v in kwargs.items()])
    pre_src = repr(pre)
    body = f"""
T = leaf({kind!r}, {pre_src}, {name!r}{', ' if argsrc else ''}{argsrc})
doc = {doc_src}
{ASSERT}
"""
    cid = f"c01.{kind}{'.' + pre if pre else ''}.{name}.{vid}.{did}"
    seen = set()
    params = []
    for p in list(vparams) + list(dparams):
        if p[0] not in seen:
            seen.add(p[0])
            params.append(p)
    return mk_case(cid, params, body, pre=list(vpres) + list(dpres), budget=budget)


def cases(ctx):
    L = 2 if ctx.quick else 3
    out = []
    for kind, pre, name in terms.leaf_kinds():
        dom = {"length": "int", "dtype": "type", None: "raw"}[pre]
        if kind == "index":
            dom = "int"
        vs = variants(name, dom, L)
        ds = docs(kind, dom if kind != "index" else "int", name, L, ctx.quick)
        assert vs and ds, (kind, pre, name)
        if ctx.quick:
            out.append(one_case(kind, pre, name, vs[0], ds[0]))
        else:
            for v in vs:
                for d in ds:
                    if kind == "value" and dom == "raw" and name in ("factor_of", "has_factor") and d[0] == "m":
                        continue   # str items would be %-formatted with the symbolic argument: they are in the conc/float docs
                    if v[0] == "str" and name in ("in_", "not_in") and "'': {}" in d[3]:
                        # CrossHair models `{} in <symbolic str>` as True where CPython raises TypeError (a non-reproducing
                        # counterexample): the empty mapping item meets the concrete str argument of variant "strc" instead
                        d = (d[0], d[1], d[2], d[3].replace("'': {}", "'': {'k': 0}"))
                    if v[0] == "float" and name in ("factor_of", "has_factor") and kind == "value":
                        # `atom % 2.5`: str atoms are formatted (enumerates), int/bool atoms meet a float (stalls z3):
                        # the float argument meets concrete items only, the atom sits where `%` does not reach it
                        d = ("lc", [("u1", U)], [f"BU({L}, u1)"], "[{'k': u1}, 1.5, 5.0, 2, 10, True, None, 's', '%d', '%', 7.5, 0, 0.0]")
                    elif v[0] == "float":
                        # a float constant against a symbolic int stalls z3: no int alternative in the document atoms
                        # (nor a symbolic bool: bool == 1.5 goes through the same int/real mix)
                        noint = {U: "Optional[str]", "int": "Optional[str]", "Optional[bool]": "Optional[str]"}
                        d = (d[0], [(n, noint.get(t, t)) for n, t in d[1]], d[2], d[3])
                    out.append(one_case(kind, pre, name, v, d))
    # float items / float keys with concrete arguments (a float constant against a symbolic int stalls z3)
    CONC = {"equal_to": ["2"], "not_equal_to": ["2"], "less_than": ["2"], "greater_than": ["2"], "less_than_or_equal_to": ["2"],
            "greater_than_or_equal_to": ["2"], "in_": ["[2, 1.5]"], "not_in": ["[2, 1.5]"], "in_range": ["0", "5"],
            "not_in_range": ["0", "5"], "equal_to_approx": ["2", "1"], "factor_of": ["6"], "has_factor": ["2"], "truthy": [],
            "falsy": [], "null": [], "is_instance": ["float"]}
    for kind in ("value", "key"):
        for name, args in CONC.items():
            ut = "Optional[bool]" if name in ("factor_of", "has_factor") else "Union[bool, None, str]"
            if name in ("in_", "not_in"):
                ut = "Optional[str]"   # the argument list holds 1.5: a symbolic bool == 1.5 goes through the int/real mix that stalls z3
            doc = ("fl", [("u1", ut)], [f"BU({L}, u1)"], "[u1, 1.5, -0.0, 2.0, 6.0, 1e300, 's', '%d', '%', '%s', float('inf'), float('-inf')]") if kind == "value" else \
                  ("fm", [("u1", U)], [f"BU({L}, u1)"], "{1.5: u1, 2.0: 0, -0.0: 1, 'a': 2, 6.0: 3, '%d': 4, '%': 5, float('inf'): 6, float('-inf'): 7}")
            out.append(one_case(kind, None, name, ("conc", [], [], args, {}), doc))
    # `%` with a string on the left is string formatting: format-like string items (has_factor) / a format-like string argument
    # (factor_of) against arguments / items of every JSON-like kind - mapping-key directives look the key up in a mapping
    # (KeyError), `%c` takes code points (OverflowError), `*` widths consume arguments (TypeError / ValueError). Such an item never
    # satisfies the condition; nothing may abort the filter. Concrete strings (formatting a symbolic str is enumerated per string).
    FMT_ITEMS = "['%(a)s', '%(a)d %(b)s', '%c', '%*d', '%d', '%s %s', '100%', '%', '%%', '%(a', u1, 4, {'a': 1}]"
    for n, a in enumerate(["{}", "{'b': 1}", "{'a': u1}", "[1]", "[]", "-1", "1114112", "None", "'x'", "[1, 2]", "True"]):   # (no float argument: `bool_atom % 2.5` is the int/real mix that stalls z3)
        doc = ("fmt", [("u1", "Optional[bool]")], [], FMT_ITEMS)
        out.append(one_case("value", None, "has_factor", (f"fmtarg{n}", [], [], [a], {}), doc))
        if not ctx.quick or n % 3 == 0:
            out.append(one_case("key", None, "has_factor", (f"fmtarg{n}", [], [], [a], {}),
                                ("fmtk", [("u1", "Optional[bool]")], [], "{'%(a)s': u1, '%c': 0, '%*d': 1, '%(a)d %(b)s': 2, 3: 3, '100%': 4}")))
    for n, a in enumerate(["'%(a)s'", "'%(a)d'", "'%c'", "'%*d'", "'%s %s'", "'100%'", "'%d'"]):
        doc = ("fmtd", [("u1", "Optional[bool]")], [], "[{}, {'b': 1}, {'a': u1}, {'a': 's'}, [1], [], -1, 1114112, None, 'x', 2.5, u1, (1, 2) and [1, 2], 0]")
        out.append(one_case("value", None, "factor_of", (f"fmtval{n}", [], [], [a], {}), doc))
    # equal_to_approx at large magnitudes and at the tolerance edge (concrete floats: where `value +- tolerance` rounds back to
    # `value`, or the edge fraction is not representable, only the documented `abs(item - value) < tolerance` is right)
    for n, args in enumerate([["1e300", "1e-8"], ["1700000000"], ["9007199254740992", "0.5"], ["1", "0.1"], ["1700000000.5", "0.25"]]):
        doc = ("flbig", [("u1", "Optional[str]")], [f"BU({L}, u1)"],
               "[u1, 1e300, 1700000000, 1700000000.0, 9007199254740992, 9007199254740993, 0.9, 1.1, 1.0999999999999999, 1700000000.25, 1700000000.75, -1e300]")
        out.append(one_case("value", None, "equal_to_approx", (f"big{n}", [], [], args, {}), doc))
    # float-only family for equal_to_approx (symbolic floats)
    body = f"""
T = leaf('value', None, 'equal_to_approx', v, tol)
doc = [f1, 1, 's']
{ASSERT}
"""
    out.append(mk_case("c01.value.equal_to_approx.floats", [("v", "float"), ("tol", "float"), ("f1", "float")],
                       body, pre=["v == v and tol == tol and f1 == f1"]))
    body = f"""
T = leaf('value', None, 'less_than', v)
doc = [f1, 1, 's', None]
{ASSERT}
"""
    out.append(mk_case("c01.value.less_than.floats", [("v", "float"), ("f1", "float")], body, pre=["v == v and f1 == f1"]))
    # equal-but-differently-typed items (1 / True / 1.0, 0 / False / 0.0) under type-sensitive leaves
    for cid, tsrc in [("dtype_int", "leaf('value', 'dtype', 'equal_to', int)"), ("dtype_bool", "leaf('value', 'dtype', 'equal_to', bool)"),
                      ("dtype_in", "leaf('value', 'dtype', 'in_', [float, bool])"), ("is_instance_bool", "leaf('value', None, 'is_instance', bool)"),
                      ("is_instance_int", "leaf('value', None, 'is_instance', int)"), ("key_dtype_int", "leaf('key', 'dtype', 'equal_to', int)"),
                      ("key_is_instance_float", "leaf('key', None, 'is_instance', float)")]:
        doc = "{1: u1, 2.0: 0, True + 1: 1, 0: 2, -0.0: 3, 3: 4, 3.0: 5}" if cid.startswith("key") else "[1, True, 1.0, 0, False, 0.0, u1, 2, 2.0]"
        if cid.startswith("key"):
            doc = "{1: u1, 2.0: 0, 0: 2, 3: 4, False: 5, 4.0: 6, True: 7}"   # (equal keys collapse in a mapping: 1/True, 0/False)
        body = f"""
T = {tsrc}
doc = {doc}
{ASSERT}
"""
        out.append(mk_case(f"c01.twins.{cid}", [("u1", "Union[bool, None, str]")], body, pre=[f"BU({L}, u1)"]))
    for cid, tsrc in [("dtype_int", "leaf('value', 'dtype', 'equal_to', int)"), ("is_instance_bool", "leaf('value', None, 'is_instance', bool)"),
                      ("gt", "leaf('value', None, 'greater_than', a)"), ("in", "leaf('value', None, 'in_', [a, True, None])"),
                      ("length", "leaf('value', 'length', 'less_than', a)"), ("keys", "leaf('value', None, 'keys_contain', 1)")]:
        body = f"""
T = {tsrc}
cond = build_cond(T)
docs = ([1, 2, u1, 'ab'], [True, F2, u1, 'ab'], {{'x': F1, 'y': [1], 'z': {{1: 0}}}}, [1, 2, u1, 'ab'], {{'x': True, 'y': [True], 'z': {{True: 0}}}})
ok = True
for doc in docs:
    fd = cond.filter(doc)
    exp = ref_tree(T, doc)
    ok = ok and same('result on this document', fd.result, exp) and same('failure_indices', fd.failure_indices, [i for i in range(len(exp)) if not exp[i]])
    ok = ok and same('test() of the first item', cond.test(ref_items(doc)[0][1]), exp[0])
return ok
"""
        # float twins only where no symbolic int argument meets them (a float against a symbolic int stalls z3)
        body = body.replace("F2", "2" if cid in ("gt", "in", "length") else "2.0").replace("F1", "1" if cid in ("gt", "in", "length") else "1.0")
        out.append(mk_case(f"c01.reuse.{cid}", [("a", "int"), ("u1", "Union[bool, None, str]")], body, pre=[f"I64(a) and BU({L}, u1)"]))
    # aliases build the same object and filter alike
    for kind, pre in terms.CLASSES:
        for al, full in terms.ALIASES.items():
            if not ctx.quick or (kind, pre) in (("value", None), ("key", "length"), ("index", None)):
                cls = f"cond_class({kind!r}, {pre!r})"
                doc = {"value": "[u1, 0, 'a', [1]]", "key": "{'a': u1, 2: 0, '': 1}", "index": "[u1, 0, 'a']"}[kind]
                body = f"""
x = {cls}.{al}(a)
y = {cls}.{full}(a)
doc = {doc}
ok = note('alias builds an equal object', x == y and type(x) is type(y))
ok = ok and same('alias filters alike', x.filter(doc).result, y.filter(doc).result)
ok = ok and same('alias means the full name', x.filter(doc).result, ref_tree(leaf({kind!r}, {pre!r}, {full!r}, a), doc))
return ok
"""
                out.append(mk_case(f"c01.alias.{kind}{'.' + pre if pre else ''}.{al}", [("a", "int"), ("u1", U)], body,
                                   pre=[f"I64(a) and BU({L}, u1)"]))
    # entry points agree: Data.filter, test, test_all
    for name, argsrc, params, pres in [
        ("greater_than", "a", [("a", "int")], ["I64(a)"]),
        ("equal_to", "a", [("a", U)], [f"BU({L}, a)"]),
        ("truthy", "", [], []),
        ("in_", "[a, 1]", [("a", U)], [f"BU({L}, a)"]),
    ]:
        body = f"""
T = leaf('value', None, {name!r}{', ' + argsrc if argsrc else ''})
cond = build_cond(T)
doc = [u1, u2, [u1]]
exp = ref_tree(T, doc)
ok = same('Data.filter', Data(doc).filter(cond).result, exp)
ok = ok and same('test_all', cond.test_all(doc), all(exp))
ok = ok and same('test', cond.test(u1), exp[0])
ok = ok and same('filter(Data)', cond.filter(Data(doc)).result, exp)
return ok
"""
        out.append(mk_case(f"c01.entry.value.{name}", params + [("u1", U), ("u2", U)], body, pre=pres + [f"BU({L}, u1, u2)"]))
    body = """
T = leaf('key', None, 'equal_to', a)
cond = build_cond(T)
doc = {'k': u1, 1: 0, '': 2}
exp = ref_tree(T, doc)
ok = same('Data.filter', Data(doc).filter(cond).result, exp)
ok = ok and same('test_all', cond.test_all(doc), all(exp))
ok = ok and same('test single-item mapping', cond.test({'k': u1}), ref_tree(T, {'k': u1})[0])
return ok
"""
    out.append(mk_case("c01.entry.key.equal_to", [("a", U), ("u1", U)], body, pre=[f"BU({L}, a, u1)"]))
    # one Data object filtered several times: what an earlier condition computed on it (keys vs values, lengths vs
    # types, another argument) must not leak into a later one
    seqs = {
        "len.key_value": ["leaf('key', 'length', 'equal_to', a)", "leaf('value', 'length', 'equal_to', a)", "leaf('key', 'length', 'less_than', a)"],
        "len.value_key": ["leaf('value', 'length', 'greater_than', a)", "leaf('key', 'length', 'greater_than', a)"],
        "dtype.key_value": ["leaf('key', 'dtype', 'equal_to', str)", "leaf('value', 'dtype', 'equal_to', str)", "leaf('key', 'dtype', 'in_', [int, str])"],
        "dtype.value_key": ["leaf('value', 'dtype', 'equal_to', int)", "leaf('key', 'dtype', 'equal_to', int)"],
        "mixed": ["leaf('value', 'length', 'equal_to', a)", "leaf('value', 'dtype', 'equal_to', list)", "leaf('value', None, 'equal_to', a)",
                  "leaf('key', None, 'equal_to', 'ab')", "leaf('key', 'length', 'equal_to', a)", "leaf('value', 'length', 'equal_to', 1)"],
    }
    for sid, seq in seqs.items():
        body = f"""
doc = {{'ab': [1, u1, 3], 'xyz': 'q', 'k': u1, 3: 'abc', '': [[]]}}
d = Data(doc)
ok = True
for T in [{', '.join(seq)}]:
    cond = build_cond(T)
    exp = ref_tree(T, doc)
    fd = d.filter(cond)
    ok = ok and same('Data.filter on the shared Data', fd.result, exp)
    ok = ok and same('failure_indices', fd.failure_indices, [i for i in range(len(exp)) if not exp[i]])
    ok = ok and same('cond.filter(shared Data)', cond.filter(d).result, exp)
return ok
"""
        out.append(mk_case(f"c01.shared_data.{sid}", [("a", "int"), ("u1", "Union[bool, None, str]")], body, pre=[f"I64(a) and BU({L}, u1)"]))
    # documents that are instances of dict / list subclasses (OrderedDict, defaultdict, a user list subclass): items, keys and
    # indices are those of the mapping / list
    for cid, T, doc in [
        ("value.gt.odict", "leaf('value', None, 'greater_than', a)", "collections.OrderedDict([('x', u1), ('y', 0), (1, [u1]), (None, 'ab')])"),
        ("key.eq.ddict", "leaf('key', None, 'equal_to', 'y')", "collections.defaultdict(list, {'x': u1, 'y': 0, 1: [u1]})"),
        ("key.len.odict", "leaf('key', 'length', 'less_than', a)", "collections.OrderedDict([('x', u1), ('yy', 0), ('', 2), (3, 4)])"),
        ("value.len.seq", "leaf('value', 'length', 'equal_to', a)", "Seq([u1, 'ab', [1, 2], Seq([u1]), collections.OrderedDict(k=1)])"),
        ("index.lt.seq", "leaf('index', None, 'less_than', a)", "Seq([u1, 0, 'a'])"),
        ("value.keys.nested", "leaf('value', None, 'keys_contain', 'k')", "[collections.OrderedDict(k=u1), collections.defaultdict(int, {'j': 1}), Seq(['k']), {'k': 0}]"),
        ("value.dtype.nested", "leaf('value', 'dtype', 'in_', [dict, list])", "[collections.OrderedDict(k=u1), Seq([1]), {}, [], u1]"),
        ("value.isinstance.nested", "leaf('value', None, 'is_instance', dict, list)", "[collections.OrderedDict(k=u1), Seq([1]), {}, [], u1]"),
    ]:
        body = f"""
import collections
class Seq(list):
    pass
T = {T}
doc = {doc}
{ASSERT}
"""
        out.append(mk_case(f"c01.subclass_docs.{cid}", [("a", "int"), ("u1", U)], body, pre=[f"I64(a) and BU({L}, u1)"]))
    # history: a condition filters the same after it has been serialised / compared / copied (arguments holding nested mappings
    # with path-like keys, which the serialiser escapes): the oracle is evaluated on a freshly built term each time
    for cid, T, doc in [
        ("in_list.nested_pathlike", "leaf('value', None, 'in_', [{'path': a}, {'src': {'mypath': [a]}}, 1])", "[{'path': u1}, {'src': {'mypath': [u1]}}, {chr(92) + 'path': u1}, 1, u1]"),
        ("equal_to.nested_pathlike", "leaf('value', None, 'equal_to', {'src': {'PathName': a}, 'n': 1})", "[{'src': {'PathName': u1}, 'n': 1}, {'src': {chr(92) + 'PathName': u1}, 'n': 1}, u1]"),
        ("items_contain.kw_pathlike", "leaf('value', None, 'items_contain', target={'path': [a]})", "[{'target': {'path': [u1]}}, {'target': {chr(92) + 'path': [u1]}}, {'target': u1}]"),
        ("not_in.list_of_lists", "leaf('value', None, 'not_in', [[a, {'path.length': 0}], 2])", "[[u1, {'path.length': 0}], [u1, {chr(92) + 'path.length': 0}], 2, u1]"),
    ]:
        body = f"""
import copy
mk = lambda: {T}
doc = {doc}
cond = build_cond(mk())
ok = same('first filter', cond.filter(doc).result, ref_tree(mk(), doc))
spec = cond.to_json_like()
ok = ok and same('filter after to_json_like()', cond.filter(doc).result, ref_tree(mk(), doc))
spec2 = cond.to_json_like()
ok = ok and note('serialising twice gives the same spec', spec == spec2)
ok = ok and note('still equal to a freshly built condition', cond == build_cond(mk()))
dup = copy.deepcopy(cond)
repr(cond)
ok = ok and same('filter after deepcopy / repr / ==', cond.filter(doc).result, ref_tree(mk(), doc))
ok = ok and same('the copy filters alike', dup.filter(doc).result, ref_tree(mk(), doc))
ok = ok and same('test_all', cond.test_all(doc), all(ref_tree(mk(), doc)))
return ok
"""
        out.append(mk_case(f"c01.history.serialised.{cid}", [("a", "int"), ("u1", "int")], body, pre=[f"BU({L}, a, u1)"], stubs=["sym_repr"]))
    # in_range / not_in_range with a float bound: `range(lower, upper)` is undefined, so every item counts as not satisfying
    # (float items and bounds concrete: a float against a symbolic int stalls z3)
    for nm in ("in_range", "not_in_range"):
        for bid, args in [("float_lower", "0.0, 5"), ("float_upper", "0, 5.0"), ("both_float", "1.5, 4.5"), ("none_upper", "0, None")]:
            for kind, doc in [("value", "[2, 2.0, 2.5, True, '2', None, 7, 7.0, -1.0, [2], {}, u1]"), ("key", "{1: u1, 2.0: 'b', 2.5: 'c', 'k': 'd', None: 'e', 7.0: 0, -1.0: 1}")]:
                body = f"""
T = leaf({kind!r}, None, {nm!r}, {args})
doc = {doc}
{ASSERT}
"""
                out.append(mk_case(f"c01.{kind}.{nm}.{bid}.floats", [("u1", "Optional[str]")], body, pre=[f"BU({L}, u1)"]))
    return out
