"""C04 - reported concrete paths are truthful; path modifiers mean what they say."""
import itertools

from engine.runner import mk_case
from props.C03 import PARTS, DOCS as DOCS3, DEEP_DOC, DEEP_QUICK, DEEP_MORE, ALIAS_DOC, ALIAS_SHAPES

U = "Union[int, bool, None, str]"
DOCS = dict(DOCS3)
DOCS.update({
    "dc": "{'p': {'k': u1, 1: u2}, 'q': {'j': u3}, 'r': u1, 's': [u2, u3], 't': {}}",
    "dl2": "[{'k': u1}, [u2, u3], {'j': u2, 1: u3}, u1]",
    "d6": DEEP_DOC,
    "da": ALIAS_DOC,
    "dsized": "{'a': [u2, u3], 'b': (3, 4, u2), 'c': 'xy', 'd': {1, 2}, 'e': b'abc', 'f': frozenset(), 'g': {'k': u1}, 'l': [(u3,), b'', 'z', [u1]]}",
})
MODS = [None, "length", "dtype", "map_keys", "map_values"]
MULTIS = [None, "first", "last", "single", "all"]


def BOUNDS(ctx):
    return {
        "paths": "C03's skeletons (subset) over C03's documents plus two modifier documents; lengths 1-3, and a deep family of 4-7 parts "
                 "over a six-level document with five-item lists",
        "modifiers": "every (datum modifier, multiplicity modifier) pair of {none,length,dtype,map_keys,map_values} x "
                     "{none,first,last,single,all}, both application orders, return_paths True and False",
        "definedness": "the harness evaluates with the reference model whether the datum modifier is defined for every selected "
                       "node and only then requires a result (the property restricts itself to such documents)",
        "symbolic": "document leaves (u1 Union, u2/u3 int), primitive parts, thresholds, keys",
        "outside": "DataPathMultiType.ANY (unimplemented in valida, not named by the property); empty selections only require []",
    }


def collect(shape):
    params, seen, parts = [], set(), []
    for p in shape:
        src, ps = PARTS[p]
        parts.append(src)
        for q in ps:
            if q[0] not in seen:
                seen.add(q[0])
                params.append(q)
    params += [("u1", U), ("u2", "int"), ("u3", "int")]
    return params, parts


def truth_case(shape, docid, L):
    params, parts = collect(shape)
    names = ", ".join(p[0] for p in params)
    body = f"""
PT = ({', '.join(parts)},)
doc = {DOCS[docid]}
path = build_path(PT)
got = path.get_data(doc, return_paths=True)
plain = path.get_data(doc, return_paths=False)
if path_is_concrete(PT):
    if got is None:
        return note('absent both ways', plain is None)
    ok = note('indexing the document along the path reaches the value', follow(doc, got[1]) is got[0])
    ok = ok and note('same value without paths', plain is got[0])
    return ok
ok = note('list both ways', type(got) is list and type(plain) is list and len(got) == len(plain))
for idx in range(len(got)):
    v, cp = got[idx]
    ok = ok and note('indexing the document along the path reaches the value', follow(doc, cp) is v)
    ok = ok and note('same values in the same order without paths', plain[idx] is v)
    for jdx in range(idx):
        ok = ok and note('paths pairwise distinct', tx(got[jdx][1]) != tx(cp))
return ok
"""
    return mk_case(f"c04.truth.{'/'.join(shape)}.{docid}", params, body, pre=[f"BU({L}, {names})"], stubs=["sym_repr"])


def mod_case(shape, docid, mod, multi, L):
    params, parts = collect(shape)
    names = ", ".join(p[0] for p in params)
    chain1 = "path" + (f".{mod}()" if mod else "") + (f".{multi}()" if multi else "")
    chain2 = "path" + (f".{multi}()" if multi else "") + (f".{mod}()" if mod else "")
    body = f"""
PT = ({', '.join(parts)},)
doc = {DOCS[docid]}
mod, multi = {mod!r}, {multi!r}
path = build_path(PT)
sel = ref_walk(PT, doc)
if not all(datum_mod_defined(mod, v) for v, _ in sel):
    return True   # outside the property: the modifier is not defined for a selected node
vals = [ref_datum_mod(mod, v) for v, _ in sel]
cps = [cp for _, cp in sel]
ok = True
for order in (1, 2):
    p2 = {chain1} if order == 1 else {chain2}
    ok = ok and note('modifier application leaves the path itself unmodified', path.DATUM_TYPE.value is None and path.MULTI_TYPE.value is None)
    for rp in (False, True):
        items = [(v, cp) for v, cp in zip(vals, cps)] if rp else vals
        if multi == 'single' and len(items) > 1:
            raised = False
            try:
                p2.get_data(doc, return_paths=rp)
            except ValueError:
                raised = True
            ok = ok and note('single() with several matches is an error', raised)
            continue
        got = p2.get_data(doc, return_paths=rp)
        if len(items) == 0:
            ok = ok and same('nothing selected', got, [])
        elif multi in ('first', 'single'):
            ok = ok and same(f'{{multi}} order {{order}} rp={{rp}}', tx(got), tx(items[0]))
        elif multi == 'last':
            ok = ok and same(f'last order {{order}} rp={{rp}}', tx(got), tx(items[-1]))
        else:
            ok = ok and same(f'all/none order {{order}} rp={{rp}}', tx(got), tx(items))
return ok
"""
    return mk_case(f"c04.mod.{mod or 'none'}.{multi or 'none'}.{'/'.join(shape)}.{docid}", params, body,
                   pre=[f"BU({L}, {names})"], stubs=["sym_repr"])


def concrete_mod_case(shape, docid, mod, L):
    params, parts = collect(shape)
    params = [p for p in params if p[0] not in ("u2", "u3")]  # one symbolic leaf: the walk forks on the parts already
    names = ", ".join(p[0] for p in params)
    body = f"""
PT = ({', '.join(parts)},)
doc = {DOCS[docid].replace('u2', '7').replace('u3', '8')}
mod = {mod!r}
path = build_path(PT)
ok = True
sel = ref_walk(PT, doc)
if all(datum_mod_defined(mod, v) for v, _ in sel):
    p2 = getattr(path, mod)() if mod else path
    got = p2.get_data(doc, return_paths=True)
    plain = p2.get_data(doc)
    if not sel:
        ok = ok and note('absent', got is None and plain is None)
    else:
        ok = ok and same('datum modifier on a concrete path', tx(got), tx((ref_datum_mod(mod, sel[0][0]), sel[0][1])))
        ok = ok and same('... without paths', tx(plain), tx(ref_datum_mod(mod, sel[0][0])))
# (last: rendering the path into the error text makes later string comparisons fork more)
for m in ('first', 'last', 'single', 'all'):
    raised = False
    try:
        getattr(path, m)()
    except ValueError:
        raised = True
    ok = ok and note('multiplicity modifiers are refused on concrete paths', raised)
return ok
"""
    return mk_case(f"c04.concrete.{mod or 'none'}.{'/'.join(shape)}.{docid}", params, body, pre=[f"BU({L}, {names})"], stubs=["sym_repr"])


TRUTH_SHAPES = [(("M",), "dm"), (("X", "X"), "dl"), (("M", "M"), "dm"), (("L", "X", "X"), "dl"), (("X", "X", "X"), "dm"),
                (("Mv", ), "dc"), (("M", "Xv"), "dc"), (("Liv", "X"), "dl"), (("a", "c", "i"), "dm"), (("i", "j"), "dl"),
                (("Md", "M"), "dk"), (("X", "Li"), "dl2"), (("Mnk", "X"), "dc"), (("X", "Xc"), "dl2")]
MOD_SHAPES = [(("M",), "dc"), (("Md",), "dc"), (("L",), "dl2"), (("Mnk",), "dc"), (("M", "X"), "dc"), (("X", "X"), "dl2"),
              (("Li",), "dl2"), (("l", "L"), "dm"), (("Md", "M"), "dm")]
CONC_SHAPES = [(("s",), "dc"), (("i",), "dl2"), (("p", ), "dc"), (("a", "c"), "dm"), (("a", "c", "i"), "dm"), (("i", "j"), "dl2")]
PARTS.setdefault("p", ("('prim', 'p')", []))


def cases(ctx):
    L = 2 if ctx.quick else 3
    out = []
    for sh, d in TRUTH_SHAPES:
        out.append(truth_case(sh, d, L))
    # deep family: 4-7 parts over C03's six-level document with five-item lists
    for sh in (DEEP_QUICK[:4] if ctx.quick else DEEP_QUICK + DEEP_MORE):
        case = truth_case(sh, "d6", L)
        case["id"] = case["id"].replace("c04.truth.", "c04.truthdeep.")
        out.append(case)
    # aliased documents (one container object under several branches): each branch has its own truthful path
    for sh in (ALIAS_SHAPES[:4] if ctx.quick else ALIAS_SHAPES):
        case = truth_case(sh, "da", L)
        case["id"] = case["id"].replace("c04.truth.", "c04.truthalias.")
        out.append(case)
    for sh, mod, multi in [(("M", "c"), "length", "last"), (("l", "L"), "map_keys", "all"), (("X", "X"), "dtype", "first")]:
        out.append(mod_case(sh, "da", mod, multi, L))
    # sized leaves other than str / list / dict (what YAML's !!set and !!binary load to, tuples from API users): `length` is defined
    # for them, `dtype` is their exact type; with and without multiplicity modifiers, both orders
    for mod, multi in (("length", None), ("length", "last"), ("dtype", "first"), ("length", "all")):
        case = mod_case(("M",), "dsized", mod, multi, L)
        out.append(case)
    out.append(mod_case(("l", "L"), "dsized", "length", None, L))
    deep_mods = [(("a", "b", "c", "L"), "dtype", "last"), (("a", "b", "c", "1", "d", "L"), None, "first"), (("l", "4", "L"), "length", "all"),
                 (("X", "X", "X", "X"), "dtype", None), (("a", "b", "c", "1", "d", "4", "M"), "length", "single")]
    for sh, mod, multi in (deep_mods[:3] if ctx.quick else deep_mods):
        out.append(mod_case(sh, "d6", mod, multi, L))
    combos = list(itertools.product(MODS, MULTIS))
    if ctx.quick:
        for n, (mod, multi) in enumerate(combos):
            sh, d = MOD_SHAPES[n % len(MOD_SHAPES)]
            out.append(mod_case(sh, d, mod, multi, L))
    else:
        for (mod, multi) in combos:
            for sh, d in MOD_SHAPES:
                out.append(mod_case(sh, d, mod, multi, L))
    for n, (sh, d) in enumerate(CONC_SHAPES):
        for mod in (MODS if not ctx.quick else [MODS[n % 5], MODS[(n + 2) % 5]]):
            out.append(concrete_mod_case(sh, d, mod, L))
    body = """
base = DataPath(MapValue(value=Value.is_instance(list, dict, str)))
docs = ({'a': [u1, 2], 'b': {'k': 1}, 'c': 5}, {'a': 'xy', 'b': [1, 2, 3]}, {'z': 0}, {'a': [u1, 2], 'b': {'k': 1}, 'c': 5})
PT = (('map', V('is_instance', list, dict, str)),)
ok = True
chains = [('length', 'last'), ('last', None), ('first', 'length'), ('length', 'first'), ('dtype', 'all'), ('last', 'length'), ('length', None), ('first', None)]
for doc in docs:
    sel = ref_walk(PT, doc)
    for m1, m2 in chains:
        p = getattr(base, m1)()
        if m2:
            p = getattr(p, m2)()
        mod = m1 if m1 in ('length', 'dtype') else (m2 if m2 in ('length', 'dtype') else None)
        multi = m1 if m1 in ('first', 'last', 'all') else (m2 if m2 in ('first', 'last', 'all') else None)
        vals = [ref_datum_mod(mod, v) for v, _ in sel]
        exp = [] if not vals else (vals[0] if multi == 'first' else (vals[-1] if multi == 'last' else vals))
        ok = ok and same('chain on a reused base path', tx(p.get_data(doc)), tx(exp))
    ok = ok and same('the base path itself is unmodified', tx(base.get_data(doc)), tx([v for v, _ in sel]))
return ok
"""
    out.append(mk_case("c04.reuse.base_path_chains", [("u1", "Union[int, bool, None]")], body, pre=[f"BU({L}, u1)"], stubs=["sym_repr"]))
    # the empty path with datum modifiers
    body = """
doc = {'a': u1, 'b': [u2]}
ok = same('empty path length', DataPath().length().get_data(doc, return_paths=True), (2, ()))
ok = ok and same('empty path map_keys', DataPath().map_keys().get_data(doc), ['a', 'b'])
ok = ok and note('empty path dtype', DataPath().dtype().get_data(doc) is dict)
mv = DataPath().map_values().get_data(doc)
ok = ok and note('empty path map_values', len(mv) == 2 and mv[0] is u1 and mv[1] is doc['b'])
return ok
"""
    out.append(mk_case("c04.concrete.empty_path", [("u1", U), ("u2", U)], body, pre=[f"BU({L}, u1, u2)"]))
    # a datum modifier cannot be applied twice, nor a multiplicity modifier
    body = """
p = DataPath(MapValue())
r1 = r2 = False
try:
    p.length().dtype()
except ValueError:
    r1 = True
try:
    p.first().last()
except ValueError:
    r2 = True
return r1 and r2
"""
    out.append(mk_case("c04.mod.twice_refused", [("u1", "int")], body, pre=["I64(u1)"]))
    # the same path object asked twice about the same document object, which the caller edits in place in between
    # (and the first result list edited by the caller): every call reports the document as it is at that call
    for pid, psrc, PT in [("M/args", "DataPath('jobs', ListValue(), 'args')", "(('prim', 'jobs'), ('list', NULL), ('prim', 'args'))"),
                          ("M/args/L", "DataPath('jobs', ListValue(), 'args', ListValue(value=Value.greater_than(t)))",
                           "(('prim', 'jobs'), ('list', NULL), ('prim', 'args'), ('list', V('greater_than', t)))"),
                          ("concrete", "DataPath('jobs', 1, 'args')", "(('prim', 'jobs'), ('prim', 1), ('prim', 'args'))")]:
        body = f"""
doc = {{'jobs': [{{'args': [1, u1]}}, {{'args': [3]}}, {{'args': [4, 5, 6]}}]}}
path = {psrc}
PT = {PT}
lp, fp = path.length(), (path.first() if not path.is_concrete else path)
ok = True
for step in range(3):
    exp = ref_walk(PT, doc)
    got = path.get_data(doc, return_paths=True)
    if path.is_concrete:
        got = [got] if got is not None else []
    ok = ok and same('pairs at step %d' % step, tx([(v, tuple(cp)) for v, cp in got]), tx(exp))
    ok = ok and note('every path is truthful at step %d' % step, all(follow(doc, cp) is v for v, cp in got))
    vals = path.get_data(doc)
    if path.is_concrete:
        vals = [vals] if vals is not None else []
    ok = ok and same('values without paths at step %d' % step, tx(vals), tx([v for v, _ in exp]))
    ok = ok and same('values without paths again', tx(path.get_data(doc) if not path.is_concrete else vals), tx([v for v, _ in exp]))
    if not path.is_concrete:
        if all(isinstance(v, (list, dict, str)) for v, _ in exp):   # (length is only defined for sized nodes)
            ok = ok and same('length() at step %d' % step, tx(lp.get_data(doc)), tx([ref_datum_mod('length', v) for v, _ in exp]))
        ok = ok and same('first() at step %d' % step, tx(fp.get_data(doc)), tx(exp[0][0] if exp else []))
        vals.append('caller-owned')   # the caller edits the list it was handed
    if step == 0:
        doc['jobs'][0]['args'] = [30, u1]
        doc['jobs'][1]['args'][0] = 40
        doc['jobs'][1]['args'].append(u2)
    elif step == 1:
        doc['jobs'].pop()
        doc['jobs'].insert(0, {{'args': [u2]}})
return ok
"""
        params = [("u1", "int"), ("u2", "int")] + ([("t", "int")] if pid == "M/args/L" else [])
        out.append(mk_case(f"c04.history.edit_in_place.{pid}", params, body, pre=[f"BU({L}, {', '.join(n for n, _ in params)})"], stubs=["sym_repr"]))
    # paths bound to their document (source_data=doc), then modified: the modified copies read the caller's document itself
    # (returned nodes are its nodes, edits made in place afterwards are seen), in both application orders
    body = """
doc = {'a': {'x': [1, u1]}, 'b': {'x': [4, 5, u2]}, 'c': 7}
base = DataPath(MapValue(value=Value.is_instance(dict)), 'x', source_data=doc)
conc = DataPath('a', 'x', source_data=doc)
PT = (('map', V('is_instance', dict)), ('prim', 'x'))
derived = {'all': base.all(), 'first': base.first(), 'last': base.last(), 'length': base.length(), 'length.first': base.length().first(),
           'first.length': base.first().length(), 'last.length': base.last().length(), 'dtype.all': base.dtype().all(), 'conc.length': conc.length()}
ok = True
for step in range(2):
    exp = ref_walk(PT, doc)
    vals = [v for v, _ in exp]
    got = base.get_data(return_paths=True)
    ok = ok and note('unmodified bound path: the own nodes of the document', len(got) == len(exp) and all(g[0] is e[0] and follow(doc, g[1]) is g[0] for g, e in zip(got, exp)))
    for name in ('all', 'first', 'last'):
        g = derived[name].get_data(return_paths=True)
        g = g if name == 'all' else [g]
        e = exp if name == 'all' else ([exp[0]] if name == 'first' else [exp[-1]])
        ok = ok and note(name + '(): the own nodes of the document at their true paths', len(g) == len(e) and all(a[0] is b[0] and follow(doc, a[1]) is a[0] for a, b in zip(g, e)))
    ok = ok and same('length', derived['length'].get_data(), [len(v) for v in vals])
    ok = ok and same('length.first / first.length', (derived['length.first'].get_data(), derived['first.length'].get_data()), (len(vals[0]), len(vals[0])))
    ok = ok and same('last.length', derived['last.length'].get_data(), len(vals[-1]))
    ok = ok and same('dtype.all', derived['dtype.all'].get_data(), [type(v) for v in vals])
    ok = ok and same('concrete length', derived['conc.length'].get_data(), len(doc['a']['x']))
    # the caller edits the document in place
    doc['a']['x'].append(u2)
    doc['b']['x'] = {'k': u1}
return ok
"""
    out.append(mk_case("c04.bound.modified_after_binding", [("u1", "int"), ("u2", "int")], body, pre=[f"BU({L}, u1, u2)"], stubs=["sym_repr"]))
    return out
