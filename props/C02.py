"""C02 - and/or/xor combinations are pointwise Boolean algebra with null as identity;
building a combination never alters its operands."""
import itertools

from engine.runner import mk_case

U = "Union[int, bool, None, str]"
OPS = ("and", "or", "xor")
SYM = {"and": "&", "or": "|", "xor": "^"}


def BOUNDS(ctx):
    return {
        "tree shapes": "all shapes up to depth %d over {and, or, xor} with leaves A=Value.gt(t1), B=Value.equal_to(s1), C=Value.lt(t2), "
                       "K=Key.equal_to(k) / I=Index.lt(n) and null operands in every position (incl. next to a same-operator "
                       "combination)" % (2 if ctx.quick else 3),
        "symbolic": "thresholds t1, t2, n (int), s1 (Union), key k (str), document leaves x (Union), y (int)",
        "documents": "[x, y] and {'a': x, 'b': y} for trees with <= 2 non-null leaves, [x] / {'a': x} for 3-leaf trees (quick)",
        "spec lists": "0-4 entries incl. empty ({}) entries, nested one level",
        "history quantifier": "one inductive step: after every construction the operands' identity graph and filter results are "
                              "unchanged (checked on every path), so operands can be reused in any sequence of further combinations",
        "outside": "trees deeper than the stated depth (covered by the inductive step only for operand preservation, not for the "
                   "pointwise meaning), documents wider than 2 items",
    }


LEAF = {
    "A": "V('greater_than', t1)",
    "B": "V('equal_to', s1)",
    "C": "V('less_than', t2)",
    "K": "K('equal_to', k)",
    "I": "IX('less_than', n)",
    "N": "NULL",
}
LEAF_PARAMS = {
    "A": [("t1", "int")], "B": [("s1", "int")], "C": [("t2", "int")], "K": [("k", "str")], "I": [("n", "int")], "N": [],
}


def term_src(shape):
    if isinstance(shape, str):
        return LEAF[shape]
    op, a, b = shape
    return f"({op!r}, {term_src(a)}, {term_src(b)})"


def leaves_of(shape):
    if isinstance(shape, str):
        return [shape]
    return leaves_of(shape[1]) + leaves_of(shape[2])


def shape_id(shape):
    if isinstance(shape, str):
        return shape
    return f"{shape[0]}({shape_id(shape[1])},{shape_id(shape[2])})"


def params_for(shape, L, doc_kind):
    ps, seen = [], set()
    for lf in leaves_of(shape):
        for p in LEAF_PARAMS[lf]:
            if p[0] not in seen:
                seen.add(p[0])
                ps.append(p)
    ps += [("x", U), ("y", "int")]
    names = [p[0] for p in ps]
    pre = [f"BU({L}, {', '.join(names)})"]
    return ps, pre


def doc_for(shape):
    ls = leaves_of(shape)
    if "K" in ls:
        return "{'a': x, 'b': y}"
    return "[x, y]"


def tree_case(shape, L, doc=None, tag="", narrow=True):
    ps, pre = params_for(shape, L, None)
    doc = doc or doc_for(shape)
    if narrow and len([l for l in leaves_of(shape) if l != "N"]) >= 3:
        doc = doc.replace("[x, y]", "[x]").replace("{'a': x, 'b': y}", "{'a': x}")
    body = f"""
T = {term_src(shape)}
doc = {doc}
c = build_cond(T)
ok = same('result', c.filter(doc).result, ref_tree(T, doc))
return ok
"""
    return mk_case(f"c02.tree{tag}.{shape_id(shape)}", ps, body, pre=pre)


def preserve_case(op1, op2, a, b, c, L, where, quick=True):
    """operands survive construction: snapshot, combine, compare; then reuse."""
    shape_inner = (op2, a, b)
    shape = (op1, shape_inner, c) if where == "left" else (op1, c, shape_inner)
    ps, pre = params_for(shape, L, None)
    doc = doc_for(shape)
    if quick:
        doc = doc.replace("[x, y]", "[x]").replace("{'a': x, 'b': y}", "{'a': x}")
    expr = f"inner {SYM[op1]} third" if where == "left" else f"third {SYM[op1]} inner"
    expr2 = f"third {SYM[op2]} inner" if where == "left" else f"inner {SYM[op2]} third"
    body = f"""
TA, TB, TC = {term_src(a)}, {term_src(b)}, {term_src(c)}
doc = {doc}
p, q, third = build_cond(TA), build_cond(TB), build_cond(TC)
inner = p {SYM[op2]} q
TI = ({op2!r}, TA, TB)
snap = idsnap(p, q, third, inner)
before = [o.filter(doc).result for o in (p, q, third, inner)]
outer = {expr}
TO = {term_src(shape)}
ok = same('outer result', outer.filter(doc).result, ref_tree(TO, doc))
ok = ok and note('operands not rebound by construction', idsnap(p, q, third, inner) == snap)
ok = ok and same('operands filter as before', [o.filter(doc).result for o in (p, q, third, inner)], before)
ok = ok and same('inner still means inner', inner.filter(doc).result, ref_tree(TI, doc))
again = {expr2}
TO2 = {term_src((op2, c, shape_inner) if where == 'left' else (op2, shape_inner, c))}
ok = ok and same('reused operands', again.filter(doc).result, ref_tree(TO2, doc))
ok = ok and note('operands not rebound by reuse', idsnap(p, q, third, inner) == snap)
return ok
"""
    return mk_case(f"c02.preserve.{where}.{shape_id(shape)}", ps, body, pre=pre)


def spec_src(lf):
    return {
        "A": "{'value.greater_than': t1}", "B": "{'value.equal_to': s1}", "C": "{'value.less_than': t2}",
        "K": "{'key.equal_to': k}", "I": "{'index.less_than': n}", "N": "{}",
    }[lf]


def spec_case(op, entries, L):
    shape = "N"
    for e in entries:
        shape = (op, shape, e)
    ps, pre = params_for(shape if entries else ("and", "N", "N"), L, None)
    doc = doc_for(shape) if entries else "[x, y]"
    if len([e for e in entries if e != "N"]) >= 3:
        doc = doc.replace("[x, y]", "[x]").replace("{'a': x, 'b': y}", "{'a': x}")
    body = f"""
spec = {{{op!r}: [{', '.join(spec_src(e) for e in entries)}]}}
T = {term_src(shape)}
doc = {doc}
c = ConditionLike.from_spec(spec)
ok = same('spec list result', c.filter(doc).result, ref_tree(T, doc))
return ok
"""
    return mk_case(f"c02.spec.{op}.{''.join(entries) or 'empty'}", ps, body, pre=pre)


def cases(ctx):
    L = 2 if ctx.quick else 3
    out = []
    # depth 1: every operator x operand pair incl. null on either/both sides and mixed kinds
    pairs = [("A", "B"), ("A", "N"), ("N", "A"), ("N", "N"), ("A", "K"), ("K", "A"), ("A", "I"), ("I", "C"), ("K", "N"), ("N", "I")]
    for op in OPS:
        for a, b in pairs:
            out.append(tree_case((op, a, b), L))
    # depth 2: every pair of operators, both association sides, third operand a leaf or null
    thirds = ["C", "N"] if ctx.quick else ["C", "N", "K", "I"]
    for op1, op2 in itertools.product(OPS, OPS):
        for third in thirds:
            for inner in ([("A", "B")] if ctx.quick else [("A", "B"), ("A", "N"), ("N", "B")]):
                if third in ("K", "I") and False:
                    continue
                out.append(tree_case((op1, (op2, inner[0], inner[1]), third), L))
                out.append(tree_case((op1, third, (op2, inner[0], inner[1])), L))
    # value-kind over a mapping document as well
    for op in OPS:
        out.append(tree_case((op, ("and", "A", "B"), "C"), L, doc="{'a': x, 'b': y}", tag=".mapdoc"))
    if not ctx.quick:
        # depth 3
        for op1, op2, op3 in itertools.product(OPS, OPS, OPS):
            out.append(tree_case((op1, (op2, (op3, "A", "B"), "N"), "C"), L))
            out.append(tree_case((op1, "N", (op2, "C", (op3, "N", "A"))), L))
            out.append(tree_case((op1, (op2, "A", "B"), (op3, "C", "K")), L))
    # operand preservation + reuse (the inductive step); same-operator null short-circuit included
    for op1, op2 in itertools.product(OPS, OPS):
        for third in (["N", "C"] if ctx.quick else ["N", "C", "K", "I"]):
            for where in ("left", "right"):
                out.append(preserve_case(op1, op2, "A", "B", third, L, where, ctx.quick))
    # spec lists (left fold), 0..4 entries
    for op in OPS:
        for entries in [[], ["A"], ["A", "B"], ["A", "N", "B"], ["N", "A"], ["A", "B", "C"], ["A", "B", "C", "K"], ["I", "A", "N", "C"]]:
            if ctx.quick and len(entries) == 4 and op != "and":
                continue
            out.append(spec_case(op, entries, L))
    # nested spec lists: same-operator nesting hits the construction short-circuit
    for op1, op2 in itertools.product(OPS, OPS):
        body = f"""
spec = {{{op1!r}: [{{{op2!r}: [{{'value.greater_than': t1}}, {{'value.equal_to': s1}}]}}, {{'value.less_than': t2}}]}}
T = ({op1!r}, ({op1!r}, NULL, ({op2!r}, ({op2!r}, NULL, V('greater_than', t1)), V('equal_to', s1))), V('less_than', t2))
doc = [x]
c = ConditionLike.from_spec(spec)
ok = same('nested spec result', c.filter(doc).result, ref_tree(T, doc))
return ok
"""
        out.append(mk_case(f"c02.spec.nested.{op1}.{op2}", [("t1", "int"), ("s1", "int"), ("t2", "int"), ("x", U), ("y", "int")], body,
                           pre=[f"BU({L}, t1, s1, t2, x, y)"]))
    # part constructors and-combine key/index/value conditions with null defaults
    for op in OPS:
        tree = f"({op!r}, V('greater_than', t1), V('equal_to', s1))"
        obj = f"(Value.greater_than(t1) {SYM[op]} Value.equal_to(s1))"
        ps = [("t1", "int"), ("s1", "int"), ("x", "int" if ctx.quick else U), ("y", "int")]
        for pk, extra, build, term, doc in [
            ("map", [("k", "str")], "MapValue(key=k, value=tree)", f"('and', K('equal_to', k), {tree})", "{'a': x, 'b': y}"),
            ("list", [("n", "int")], "ListValue(index=n, value=tree)", f"('and', IX('equal_to', n), {tree})", "[x, y]"),
            ("mol.map", [("k", "str"), ("n", "int")], "MapOrListValue(key=k, index=n, value=tree)", f"('and', K('equal_to', k), {tree})", "{'a': x, 'b': y}"),
            ("mol.list", [("k", "str"), ("n", "int")], "MapOrListValue(key=k, index=n, value=tree)", f"('and', IX('equal_to', n), {tree})", "[x, y]"),
        ]:
            names = ", ".join(p[0] for p in ps + extra)
            body = f"""
doc = {doc}
tree = {obj}
snap = idsnap(tree)
T = {term}
part = {build}
snap2 = idsnap(part)
ok = same('part filter', part.filter(doc).result, ref_tree(T, doc))
ok = ok and same('part filter again', part.filter(doc).result, ref_tree(T, doc))
ok = ok and note('part untouched by filtering', idsnap(part) == snap2)
ok = ok and note('tree untouched by part construction', idsnap(tree) == snap)
return ok
"""
            out.append(mk_case(f"c02.parts.{pk}.{op}", ps + extra, body, pre=[f"BU({L}, {names})"]))
    # bare value tree (and-combination with the same operator) inside a part: short-circuit site
    body = """
tree = Value.greater_than(t1) & Value.less_than(t2)
lv = ListValue(value=tree)
mol = MapOrListValue(value=tree)
T = ('and', V('greater_than', t1), V('less_than', t2))
doc = [x, y]
ok = same('ListValue(value=a & b)', lv.filter(doc).result, ref_tree(T, doc))
ok = ok and same('MapOrListValue(value=a & b) list', mol.filter(doc).result, ref_tree(T, doc))
ok = ok and same('MapOrListValue(value=a & b) map', mol.filter({'a': x, 'b': y}).result, ref_tree(T, {'a': x, 'b': y}))
ok = ok and same('tree still filters', tree.filter(doc).result, ref_tree(T, doc))
return ok
"""
    out.append(mk_case("c02.parts.bare_and_tree", [("t1", "int"), ("t2", "int"), ("x", U), ("y", "int")], body, pre=[f"BU({L}, t1, t2, x, y)"]))
    # equal operands: the same object on both sides, a rebuilt equal operand, commuted equal
    # sub-combinations, a spec list with a repeated entry (x ^ x rejects everything; x & x, x | x are x)
    for op in OPS:
        for op2 in OPS:
            body = f"""
TA, TB = V('greater_than', t1), V('equal_to', s1)
doc = [x, y]
p, q = build_cond(TA), build_cond(TB)
same_obj = p {SYM[op]} p
ok = same('x op x (same object)', same_obj.filter(doc).result, ref_tree(({op!r}, TA, TA), doc))
rebuilt = build_cond(TA) {SYM[op]} build_cond(TA)
ok = ok and same('x op x (rebuilt equal operand)', rebuilt.filter(doc).result, ref_tree(({op!r}, TA, TA), doc))
inner1 = p {SYM[op2]} q
inner2 = q {SYM[op2]} p
outer = inner1 {SYM[op]} inner2
ok = ok and same('(a op2 b) op (b op2 a)', outer.filter(doc).result, ref_tree(({op!r}, ({op2!r}, TA, TB), ({op2!r}, TB, TA)), doc))
spec = {{{op!r}: [{{'value.greater_than': t1}}, {{'value.greater_than': t1}}, {{'value.equal_to': s1}}]}}
ok = ok and same('spec list with a repeated entry', ConditionLike.from_spec(spec).filter(doc).result,
                 ref_tree(({op!r}, ({op!r}, TA, TA), TB), doc))
ok = ok and same('operands still filter as before', [p.filter(doc).result, q.filter(doc).result], [ref_tree(TA, doc), ref_tree(TB, doc)])
return ok
"""
            out.append(mk_case(f"c02.equal_operands.{op}.{op2}", [("t1", "int"), ("s1", "int"), ("x", U), ("y", "int")], body,
                               pre=[f"BU({L}, t1, s1, x, y)"]))
    # operands that compare equal (`==`: callable name and `==`-equal arguments) yet filter differently - user-supplied callables with
    # the same __name__ (two lambdas), in_range with an int vs an equal float bound: the combination is still the pointwise
    # combination of what EACH operand gives (no operand may be dropped or merged into the other)
    PAIRS = {
        "lambdas": "(Value(lambda v: isinstance(v, int) and v > t1), Value(lambda v: isinstance(v, int) and v < s1))",
        "same_name": "(Value(first), Value(check))",
        "in_range.float_lower": "(Value.in_range(0, 4), Value.in_range(0.0, 4))",
        "in_range.float_upper": "(Value.in_range(0, 4.0), Value.in_range(0, 4))",
    }
    for op in OPS:
        for pid, pair in PAIRS.items():
            body = f"""
import operator
OP = {{'and': operator.and_, 'or': operator.or_, 'xor': operator.xor}}[{op!r}]
BOOL = {{'and': (lambda p, q: p and q), 'or': (lambda p, q: p or q), 'xor': (lambda p, q: p != q)}}[{op!r}]
doc = [x, 3]
def check(v):
    return isinstance(v, int) and v > t1
first = check
def check(v):
    return isinstance(v, int) and v < s1
a, b = {pair}
ra, rb = a.filter(doc).result, b.filter(doc).result
ok = same('a op b', OP(a, b).filter(doc).result, [BOOL(p, q) for p, q in zip(ra, rb)])
ok = ok and same('b op a', OP(b, a).filter(doc).result, [BOOL(q, p) for p, q in zip(ra, rb)])
ok = ok and same('(a op b) op true', OP(OP(a, b), Value.null()).filter(doc).result, [BOOL(BOOL(p, q), True) for p, q in zip(ra, rb)])
ok = ok and same('operands filter as before', (a.filter(doc).result, b.filter(doc).result), (ra, rb))
return ok
"""
            out.append(mk_case(f"c02.lookalike_operands.{op}.{pid}", [("t1", "int"), ("s1", "int"), ("x", "int")], body, pre=["I64(t1, s1, x)"]))
    # the `null` *callable* (Value.null(), Key.null(), Index.null(), {'value.null': None}) is an ordinary always-true leaf, not
    # the NullCondition identity: true | x is all-true, true ^ x is not-x
    for op in OPS:
        for side in ("left", "right"):
            for kind, N, A, doc in (("value", "V('null')", "V('greater_than', t1)", "[x, y]"), ("key", "K('null')", "V('greater_than', t1)", "{'a': x, 'b': y}"),
                                    ("index", "IX('null')", "IX('less_than', t1)", "[x, y, 0]")):
                if ctx.quick and kind != "value" and op != "xor":
                    continue
                T = f"({op!r}, {N}, {A})" if side == "left" else f"({op!r}, {A}, {N})"
                T2 = f"({op!r}, {N}, ('and', {A}, V('equal_to', s1)))" if side == "left" else f"({op!r}, ('or', {A}, V('equal_to', s1)), {N})"
                a_spec = "{'value.greater_than': t1}" if kind != "index" else "{'index.less_than': t1}"
                items = f"[{{'{kind}.null': None}}, {a_spec}]" if side == "left" else f"[{a_spec}, {{'{kind}.null': None}}]"
                body = f"""
doc = {doc}
T, T2 = {T}, {T2}
ok = same('null callable as an operand', build_cond(T).filter(doc).result, ref_tree(T, doc))
ok = ok and same('null callable next to a combination', build_cond(T2).filter(doc).result, ref_tree(T2, doc))
ok = ok and same('spec form', ConditionLike.from_spec({{{op!r}: {items}}}).filter(doc).result, ref_tree(T, doc))
return ok
"""
                out.append(mk_case(f"c02.null_callable.{kind}.{op}.{side}", [("t1", "int"), ("s1", "int"), ("x", U), ("y", "int")], body,
                                   pre=[f"BU({L}, t1, s1, x, y)"]))
    # key-kind with index-kind must be refused (TypeError), in any nesting
    body = """
raised = False
try:
    (Value.greater_than(t1) & Key.equal_to('a')) | Index.less_than(n)
except TypeError:
    raised = True
return raised
"""
    out.append(mk_case("c02.refuse.key_index_mix", [("t1", "int"), ("n", "int")], body, pre=["I64(t1, n)"]))
    # operands whose arguments are data paths, filtered with the document supplied (as rules do): the combination is the
    # Boolean combination of what its operands give *in the same call*, on either side, at any depth, operators and spec lists
    for op1 in OPS:
        for op2 in OPS:
            body = f"""
src = {{'lo': t1, 'hi': t2, 'vals': [x, 3]}}
items = src['vals']
sd = Data(src)
a = Value.greater_than(DataPath('lo'))
b = Value.less_than(DataPath('hi'))
c = Value.equal_to(3)
A, B, C = V('greater_than', t1), V('less_than', t2), V('equal_to', 3)
ok = same('path-valued operand on the right', (c {SYM[op1]} b).filter(items, source_data=sd).result, ref_tree(({op1!r}, C, B), items))
ok = ok and same('nested on the right', (c {SYM[op1]} (a {SYM[op2]} b)).filter(items, source_data=sd).result, ref_tree(({op1!r}, C, ({op2!r}, A, B)), items))
ok = ok and same('nested on the left', ((c {SYM[op2]} a) {SYM[op1]} b).filter(items, source_data=sd).result, ref_tree(({op1!r}, ({op2!r}, C, A), B), items))
return ok
"""
            out.append(mk_case(f"c02.patharg_operands.{op1}.{op2}", [("t1", "int"), ("t2", "int"), ("x", "int")], body,
                               pre=[f"BU({L}, t1, t2, x)"], stubs=["sym_repr"]))
    for op1 in OPS:
        body = f"""
src = {{'lo': t1, 'hi': t2, 'vals': [x, 3]}}
items = src['vals']
A, B, C = V('greater_than', t1), V('less_than', t2), V('equal_to', 3)
spec = {{{op1!r}: [{{'value.equal_to': 3}}, {{'value.greater_than': {{'path': ['lo']}}}}, {{'value.less_than': {{'path': ['hi']}}}}]}}
TS = ({op1!r}, ({op1!r}, C, A), B)
ok = same('spec list with path-valued entries', ConditionLike.from_spec(spec).filter(items, source_data=Data(src)).result, ref_tree(TS, items))
t = Rule(('vals', ListValue()), ConditionLike.from_spec(spec)).test(src)
exp = ref_tree(TS, items)
ok = ok and same('through a rule', (t.is_valid, t.num_failures), (all(exp), len([e for e in exp if not e])))
return ok
"""
        out.append(mk_case(f"c02.patharg_operands.spec.{op1}", [("t1", "int"), ("t2", "int"), ("x", "int")], body,
                           pre=[f"BU({L}, t1, t2, x)"], stubs=["sym_repr"]))
    # one Data object queried with a series of freshly built (and dropped) combinations: what an earlier, now dead,
    # combination computed on it must not be served to a later one (e.g. through an identity-keyed memo)
    for did, doc in [("list", "[x, 0, 5]"), ("map", "{'a': x, 'c': 0}")]:
        body = f"""
doc = {doc}
d = Data(doc)
A, B, C = V('greater_than', t1), V('equal_to', 0), V('less_than', t2)
ok = True
for T in [('and', A, C), ('or', C, A), ('xor', ('or', C, A), B), ('and', ('xor', A, B), C), ('or', A, B)]:
    ok = ok and same('Data.filter(fresh combination)', d.filter(build_cond(T)).result, ref_tree(T, doc))
    ok = ok and same('fresh combination .filter(shared Data)', build_cond(T).filter(d).result, ref_tree(T, doc))
spec = {{'xor': [{{'and': [{{'value.greater_than': t1}}, {{}}, {{'value.less_than': t2}}]}}, {{'value.equal_to': 0}}]}}
ok = ok and same('spec list on the shared Data', ConditionLike.from_spec(spec).filter(d).result, ref_tree(('xor', ('and', A, C), B), doc))
return ok
"""
        out.append(mk_case(f"c02.shared_data.{did}", [("t1", "int"), ("t2", "int"), ("x", "int")], body,
                           pre=[f"BU({L}, t1, t2, x)"]))
    return out
