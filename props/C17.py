"""C17 - a data-path argument means the value at that path in the validated document."""
from engine.runner import mk_case

U = "Union[int, bool, None, str]"
DOC = "{'e': [], 'em': {}, 'runs': [{'tags': []}, {'tags': []}], 'x': u1, 'xs': [u1, 5], 'ref': r1, 'lo': u2, 'hi': 10, 'allowed': [r1, 7, 'q'], 'm': {'k': r1, 'j': 2}, 'n': 2, 'w': 'ab', 'pair': [u2, 10]}"


def BOUNDS(ctx):
    return {
        "rules": "rule path concrete or fan-out; condition leaves and combinations whose arguments are data paths: positional, keyword, "
                 "two at once, inside a list argument, inside a mapping argument and inside a keyword mapping; concrete and non-concrete "
                 "argument paths; with length / dtype / map_keys / map_values and first / last / all modifiers; absent paths (None); "
                 "built with the API and parsed from '{path...: parts}' specs; escaped '\\\\path' literals",
        "oracle": "the same rule with the argument replaced by the reference walk's selection (engine/oracle.py ref_walk + modifiers)",
        "symbolic": "the referenced value r1, document leaves u1 (Union) and u2 (int), thresholds",
        "outside": "data-path arguments inside the conditions of path *parts* (resolved without a source document by design); "
                   "single() with several matches",
    }


def lit(path_term, mod=None, multi=None):
    """source of the expected literal for an argument path (term source) with modifiers"""
    return f"ref_get({path_term}, doc, {mod!r}, {multi!r})"


P_REF = "(('prim', 'ref'),)"
P_LO = "(('prim', 'lo'),)"
P_HI = "(('prim', 'hi'),)"
P_ALLOWED = "(('prim', 'allowed'), ('list', NULL))"
P_M = "(('prim', 'm'),)"
P_XS = "(('prim', 'xs'),)"
P_W = "(('prim', 'w'),)"
P_N = "(('prim', 'n'),)"
P_ZZ = "(('prim', 'zz'), ('prim', 0))"
P_MV = "(('prim', 'm'), ('map', NULL))"

# (id, rule path, condition with DataPath args (API), condition with literals (uses doc), extra params)
CASES = [
    ("pos.eq", "('x',)", "Value.equal_to(DataPath('ref'))", f"Value.equal_to({lit(P_REF)})", []),
    ("pos.eq.fan", "('xs', ListValue())", "Value.equal_to(DataPath('ref'))", f"Value.equal_to({lit(P_REF)})", []),
    ("pos.gt", "('xs', ListValue())", "Value.greater_than(DataPath('lo'))", f"Value.greater_than({lit(P_LO)})", []),
    ("kw.in_range", "('xs', ListValue())", "Value.in_range(lower=DataPath('lo'), upper=DataPath('hi'))", f"Value.in_range(lower={lit(P_LO)}, upper={lit(P_HI)})", [], "0 <= 10 - u2 <= 3"),
    ("two.pos", "('x',)", "Value.in_range(DataPath('lo'), t)", f"Value.in_range({lit(P_LO)}, t)", [("t", "int")], "0 <= t - u2 <= 3"),
    ("approx.kw", "('x',)", "Value.equal_to_approx(value=DataPath('ref'), tolerance=t)", f"Value.equal_to_approx(value={lit(P_REF)}, tolerance=t)", [("t", "int")]),
    ("nonconcrete.in", "('x',)", "Value.in_(DataPath('allowed', ListValue()))", f"Value.in_({lit(P_ALLOWED)})", []),
    ("nonconcrete.in.fan", "('xs', ListValue())", "Value.in_(DataPath('allowed', ListValue()))", f"Value.in_({lit(P_ALLOWED)})", []),
    ("mapvalues", "('x',)", "Value.in_(DataPath('m', MapValue()))", f"Value.in_({lit(P_MV)})", []),
    ("mod.length", "('x',)", "Value.equal_to(DataPath('xs').length())", f"Value.equal_to({lit(P_XS, 'length')})", []),
    ("mod.length.pre", "('w',)", "Value.length.equal_to(DataPath('n'))", f"Value.length.equal_to({lit(P_N)})", []),
    ("mod.dtype", "('x',)", "Value.dtype.equal_to(DataPath('ref').dtype())", f"Value.dtype.equal_to({lit(P_REF, 'dtype')})", []),
    ("mod.map_keys", "('w',)", "Value.in_(DataPath('m').map_keys())", f"Value.in_({lit(P_M, 'map_keys')})", []),
    ("mod.map_values", "('x',)", "Value.in_(DataPath('m').map_values())", f"Value.in_({lit(P_M, 'map_values')})", []),
    ("mod.first", "('x',)", "Value.equal_to(DataPath('allowed', ListValue()).first())", f"Value.equal_to({lit(P_ALLOWED, None, 'first')})", []),
    ("mod.last", "('x',)", "Value.not_equal_to(DataPath('allowed', ListValue()).last())", f"Value.not_equal_to({lit(P_ALLOWED, None, 'last')})", []),
    ("mod.all.dtype", "('x',)", "Value.dtype.in_(DataPath('allowed', ListValue()).dtype().all())", f"Value.dtype.in_({lit(P_ALLOWED, 'dtype', 'all')})", []),
    ("arg.symbolic_index", "('x',)", "Value.equal_to(DataPath('xs', i))", f"Value.equal_to(ref_get((('prim', 'xs'), ('prim', i)), doc))", [("i", "int")]),
    ("arg.symbolic_index.in_list", "('x',)", "Value.in_([DataPath('xs', i), 5])", f"Value.in_([ref_get((('prim', 'xs'), ('prim', i)), doc), 5])", [("i", "int")]),
    ("arg.symbolic_index.length", "('n',)", "Value.equal_to(DataPath('allowed', i).length())", f"Value.equal_to(ref_get((('prim', 'allowed'), ('prim', i)), doc, 'length') if isinstance(ref_get((('prim', 'allowed'), ('prim', i)), doc), (str, list, dict)) else None)", [("i", "int")], "i in (-1, 2)"),
    ("absent", "('x',)", "Value.equal_to(DataPath('zz', 0))", f"Value.equal_to({lit(P_ZZ)})", []),
    ("absent.nonconcrete", "('x',)", "Value.in_(DataPath('zz', ListValue()))", "Value.in_([])", []),
    ("in_list", "('x',)", "Value.in_([DataPath('ref'), t])", f"Value.in_([{lit(P_REF)}, t])", [("t", "int")]),
    ("in_list.two", "('xs', ListValue())", "Value.in_([DataPath('ref'), DataPath('lo'), 5])", f"Value.in_([{lit(P_REF)}, {lit(P_LO)}, 5])", []),
    ("in_kwargs", "('m',)", "Value.items_contain(k=DataPath('ref'), j=2)", f"Value.items_contain(k={lit(P_REF)}, j=2)", []),
    ("in_map_arg", "('m',)", "Value.equal_to({'k': DataPath('ref'), 'j': 2})", f"Value.equal_to({{'k': {lit(P_REF)}, 'j': 2}})", []),
    # the root (empty) path as an argument, with modifiers; alone, next to another path, inside list / mapping arguments
    ("root.length", "('n',)", "Value.equal_to(DataPath().length())", "Value.equal_to(ref_get((), doc, 'length'))", []),
    ("root.map_keys", "('w',)", "Value.in_(DataPath().map_keys())", "Value.in_(ref_get((), doc, 'map_keys'))", []),
    ("root.not_in_keys", "('x',)", "Value.not_in(DataPath().map_keys())", "Value.not_in(ref_get((), doc, 'map_keys'))", []),
    ("root.dtype", "('m',)", "Value.dtype.equal_to(DataPath().dtype())", "Value.dtype.equal_to(dict)", []),
    ("root.in_list", "('n',)", "Value.in_([DataPath().length(), t])", "Value.in_([ref_get((), doc, 'length'), t])", [("t", "int")]),
    ("root.in_kwargs", "('m',)", "Value.items_contain(j=DataPath('n'), k=DataPath().length())", f"Value.items_contain(j={lit(P_N)}, k=ref_get((), doc, 'length'))", []),
    ("root.next_to_path", "('x',)", "Value.in_range(DataPath('lo'), DataPath().length())", f"Value.in_range({lit(P_LO)}, ref_get((), doc, 'length'))", [], "0 <= 9 - u2 <= 3"),
    ("root.in_tree", "('x',)", "Value.less_than(DataPath().length()) | Value.equal_to(DataPath('ref'))", f"Value.less_than(ref_get((), doc, 'length')) | Value.equal_to({lit(P_REF)})", []),
    ("mod.first.selects_empty_list", "('e',)", "Value.equal_to(DataPath('runs', ListValue(), 'tags').first())", "Value.equal_to(ref_get((('prim', 'runs'), ('list', NULL), ('prim', 'tags')), doc, None, 'first'))", []),
    ("mod.last.selects_empty_list", "('e',)", "Value.not_equal_to(DataPath('runs', ListValue(), 'tags').last())", "Value.not_equal_to(ref_get((('prim', 'runs'), ('list', NULL), ('prim', 'tags')), doc, None, 'last'))", []),
    ("mod.single.selects_empty_list", "('e',)", "Value.in_([DataPath(MapValue(key='e')).single(), r1])", "Value.in_([ref_get((('map', K('equal_to', 'e')),), doc)[0], r1])", []),
    ("mod.first.selects_empty_map", "('em',)", "Value.equal_to(DataPath(MapValue(key='em')).first())", "Value.equal_to({})", []),
    # an argument path that runs into a string mid-way selects nothing (a str is not a container), whatever the part
    ("arg.index_into_str", "('x',)", "Value.equal_to(DataPath('w', 0))", "Value.equal_to(ref_get((('prim', 'w'), ('prim', 0)), doc))", []),
    ("arg.symbolic_index.into_str", "('x',)", "Value.not_equal_to(DataPath('w', i))", "Value.not_equal_to(ref_get((('prim', 'w'), ('prim', i)), doc))", [("i", "int")]),
    ("arg.index_into_str.in_list", "('x',)", "Value.in_([DataPath('w', 1), DataPath('w', -1), 5])", "Value.in_([None, None, 5])", []),
    ("arg.listvalue_into_str", "('x',)", "Value.in_(DataPath('w', ListValue()))", "Value.in_([])", []),
    # tuple arguments holding paths stay tuples (a list node never equals a tuple)
    ("in_tuple.eq", "('pair',)", "Value.equal_to((DataPath('lo'), DataPath('hi')))", f"Value.equal_to(({lit(P_LO)}, {lit(P_HI)}))", []),
    ("in_tuple.ne", "('pair',)", "Value.not_equal_to((DataPath('lo'), 10))", f"Value.not_equal_to(({lit(P_LO)}, 10))", []),
    ("in_tuple.in", "('x',)", "Value.in_((DataPath('ref'), t))", f"Value.in_(({lit(P_REF)}, t))", [("t", "int")]),
    ("in_list.eq", "('pair',)", "Value.equal_to([DataPath('lo'), DataPath('hi')])", f"Value.equal_to([{lit(P_LO)}, {lit(P_HI)}])", []),
    ("combined", "('x',)", "Value.greater_than(DataPath('lo')) & (Value.less_than(DataPath('hi')) | Value.equal_to(DataPath('ref')))",
     f"Value.greater_than({lit(P_LO)}) & (Value.less_than({lit(P_HI)}) | Value.equal_to({lit(P_REF)}))", []),
]
SPEC_CASES = [
    ("spec.pos", "('x',)", "{'value.equal_to': {'path': ['ref']}}", f"Value.equal_to({lit(P_REF)})", []),
    ("spec.suffix", "('x',)", "{'value.equal_to': {'path.length': ['xs']}}", f"Value.equal_to({lit(P_XS, 'length')})", []),
    ("spec.both_suffixes", "('x',)", "{'value.equal_to': {'Path.first.DTYPE': ['allowed', {'type': 'list_value'}]}}", f"Value.equal_to({lit(P_ALLOWED, 'dtype', 'first')})", []),
    ("spec.kw", "('xs', {'type': 'list_value'})", "{'value.in_range': {'lower': {'path': ['lo']}, 'upper': {'path': ['hi']}}}", f"Value.in_range({lit(P_LO)}, {lit(P_HI)})", [], "0 <= 10 - u2 <= 3"),
    ("spec.in_list", "('x',)", "{'value.in': [{'path': ['ref']}, t]}", f"Value.in_([{lit(P_REF)}, t])", [("t", "int")]),
    ("spec.in_kwargs", "('m',)", "{'value.items_contain': {'k': {'path': ['ref']}}}", f"Value.items_contain(k={lit(P_REF)})", []),
    ("spec.escaped", "('m',)", "{'value.equal_to': {'\\\\path': ['ref']}}", "Value.equal_to({'path': ['ref']})", []),
    ("spec.escaped.in_list", "('x',)", "{'value.in': [{'\\\\path': ['ref']}, t]}", "Value.in_([{'path': ['ref']}, t])", [("t", "int")]),
    ("spec.escaped.multi_key.last", "('q',)", "{'value.equal_to': {'kind': 'file', '\\\\path': ['ref']}}", "Value.equal_to({'kind': 'file', 'path': ['ref']})", []),
    ("spec.escaped.multi_key.first", "('q',)", "{'value.equal_to': {'\\\\path': ['ref'], 'kind': 'file'}}", "Value.equal_to({'path': ['ref'], 'kind': 'file'})", []),
    ("spec.escaped.multi_key.in_kwargs", "('m2',)", "{'value.items_contain': {'k': {'kind': 'file', '\\\\path.length': ['ref']}}}", "Value.items_contain(k={'kind': 'file', 'path.length': ['ref']})", []),
    ("spec.root.length", "('n',)", "{'value.equal_to': {'path.length': []}}", "Value.equal_to(ref_get((), doc, 'length'))", []),
    ("spec.root.map_keys", "('w',)", "{'value.in': {'path.map_keys': []}}", "Value.in_(ref_get((), doc, 'map_keys'))", []),
    ("spec.root.in_list", "('n',)", "{'value.in': [{'path.length': []}, t]}", "Value.in_([ref_get((), doc, 'length'), t])", [("t", "int")]),
    ("spec.root.in_kwargs", "('m',)", "{'value.items_contain': {'j': {'path': ['n']}, 'k': {'path.length': ()}}}", f"Value.items_contain(j={lit(P_N)}, k=ref_get((), doc, 'length'))", []),
    ("spec.escaped.nonstr_key_first", "('q2',)", "{'value.equal_to': {0: 'x', '\\path': ['ref']}}", "Value.equal_to({0: 'x', 'path': ['ref']})", []),
    ("spec.escaped.none_key_first", "('q3',)", "{'value.equal_to': {None: 1, '\\path.length': ['ref']}}", "Value.equal_to({None: 1, 'path.length': ['ref']})", []),
    ("spec.escaped.nonstr_key_first.miss", "('q4',)", "{'value.equal_to': {0: 'x', '\\path': ['ref']}}", "Value.equal_to({0: 'x', 'path': ['ref']})", []),
    ("spec.escaped.nonstr_key_first.in_list", "('q2',)", "{'value.in': [{0: 'x', '\\path': ['ref']}, t]}", "Value.in_([{0: 'x', 'path': ['ref']}, t])", [("t", "int")]),
    ("spec.escaped.nonstr_key_first.in_kwargs", "('m3',)", "{'value.items_contain': {'k': {1.5: 0, '\\path': ['ref']}}}", "Value.items_contain(k={1.5: 0, 'path': ['ref']})", []),
    ("spec.escaped.hit", "('p',)", "{'value.equal_to': {'\\\\path': ['ref']}}", "Value.equal_to({'path': ['ref']})", []),
]


def cases(ctx):
    L = 2 if ctx.quick else 3
    out = []
    # history: one rule object, documents that compare equal under == but differ in type (1 / 1.0 / True)
    for n, (d1, d2) in enumerate([("{'a': 1, 'b': u2, 'x': u1}", "{'a': 1.0, 'b': u2, 'x': u1}"), ("{'a': True, 'b': u2, 'x': u1}", "{'a': 1, 'b': u2, 'x': u1}"),
                                  ("{'a': [1, 2], 'b': u2, 'x': u1}", "{'a': [True, 2.0], 'b': u2, 'x': u1}")]):
        body = f"""
rule = Rule(('b',), Value.dtype.equal_to(DataPath('a').dtype()) | Value.dtype.equal_to(DataPath('a', 0).dtype()))
rule2 = Rule(('x',), Value.dtype.in_([DataPath('a').dtype(), DataPath('b').dtype()]))
ok = True
for doc in ({d1}, {d2}, {d1}):
    for r, cond in ((rule, lambda d: Value.dtype.equal_to(ref_get((('prim', 'a'),), d, 'dtype')) | Value.dtype.equal_to(ref_get((('prim', 'a'), ('prim', 0)), d, 'dtype'))),
                    (rule2, lambda d: Value.dtype.in_([ref_get((('prim', 'a'),), d, 'dtype'), ref_get((('prim', 'b'),), d, 'dtype')]))):
        lit = Rule(r.path, cond(doc))
        ok = ok and same('verdict with the referenced value of THIS document', summarize_test(r.test(doc)), summarize_test(lit.test(doc)))
return ok
"""
        out.append(mk_case(f"c17.history.{n}", [("u1", U), ("u2", "int")], body, pre=[f"BU({L}, u1, u2)"], stubs=["sym_repr"]))
    # aliased documents (one container object under several keys / list positions, as YAML anchors load): a non-concrete argument path
    # reaches every occurrence, `last()` is the last occurrence, and each occurrence counts in a list argument
    body = """
sh = {'id': u2, 'x': u1}
other = {'id': r1, 'x': 0}
doc = {'p': sh, 'q': sh, 'rows': [sh, other, sh], 'n': [u2, u2], 'k': u2, 'm': [u2, r1, u2]}
walk = lambda pt, mod=None, multi=None: ref_get(pt, doc, mod, multi)
ROWS_ID = (('prim', 'rows'), ('list', NULL), ('prim', 'id'))
ok = True
for rpath, cond, lit in (
    (('n',), Value.equal_to(DataPath(MapValue(key=Key.in_(['p', 'q'])), 'id')), Value.equal_to([u2, u2])),
    (('k',), Value.equal_to(DataPath('rows', ListValue(), 'id').last()), Value.equal_to(u2)),
    (('m',), Value.equal_to(DataPath('rows', ListValue(), 'id')), Value.equal_to(walk(ROWS_ID))),
    (('k',), Value.in_([DataPath('rows', ListValue(), 'id').last(), DataPath('zz')]), Value.in_([u2, None])),
    (('n',), Value.equal_to(DataPath(MapValue(value=Value.is_instance(dict))).length()), Value.equal_to([2, 2])),
    (('m',), Value.equal_to(DataPath('rows', ListValue(value=Value.keys_contain('x'))).length()), Value.equal_to([2, 2, 2])),
):
    ok = ok and same('verdict equals the rule with the argument replaced by the referenced value',
                     summarize_test(Rule(rpath, cond).test(doc)), summarize_test(Rule(rpath, lit).test(doc)))
return ok
"""
    out.append(mk_case("c17.alias.api", [("r1", "int"), ("u1", U), ("u2", "int")], body, pre=[f"BU({L}, r1, u1, u2)"], stubs=["sym_repr"]))
    tables = [("api", list(CASES)), ("spec", list(SPEC_CASES))]
    if not ctx.quick:
        for kind, table in tables:
            extra_rows = []
            for row in list(table):
                cid, rpath = row[0], row[1]
                if "escaped" in cid or rpath not in ("('x',)",):
                    continue
                alt = "('xs', ListValue())" if kind == "api" else "('xs', {'type': 'list_value'})"
                extra_rows.append((cid + "@fan", alt) + tuple(row[2:]))
                alt2 = "(MapValue(key=Key.in_(['x', 'n'])),)" if kind == "api" else "({'type': 'map_value', 'key.in': ['x', 'n']},)"
                extra_rows.append((cid + "@keys", alt2) + tuple(row[2:]))
            table += extra_rows
    for kind, table in tables:
        for cid, rpath, cond, cond_lit, extra, *more in table:
            heavy = "ListValue()" in rpath or "list_value" in rpath
            params = list(extra) + [("r1", "int" if heavy or cid == "combined" else U), ("u1", "int" if cid == "combined" else U), ("u2", "int")]
            names = ", ".join(p[0] for p in params)
            doc = DOC if not cid.startswith("spec.escaped") else DOC[:-1] + ", 'p': {'path': ['ref']}, 'q': {'kind': 'file', 'path': ['ref']}, 'm2': {'k': {'kind': 'file', 'path.length': ['ref']}}, 'q2': {0: 'x', 'path': ['ref']}, 'q3': {None: 1, 'path.length': ['ref']}, 'q4': {0: 'x', '\\\\path': ['ref']}, 'm3': {'k': {1.5: 0, 'path': ['ref']}}}"
            path_src = f"DataPath.from_part_specs(*{rpath})"
            cond_src = cond if kind == "api" else f"ConditionLike.from_spec({cond})"
            body = f"""
doc = {doc}
rule = Rule({path_src}, {cond_src})
expected_rule = Rule({path_src}, {cond_lit})
ok = same('verdict equals the rule with the argument replaced by the referenced value',
          summarize_test(rule.test(doc)), summarize_test(expected_rule.test(doc)))
v = Schema([rule]).validate(doc)
ok = ok and same('schema verdict', (v.is_valid, v.num_failures), (expected_rule.test(doc).is_valid, expected_rule.test(doc).num_failures))
return ok
"""
            out.append(mk_case(f"c17.{kind if kind == 'api' else ''}{'.' if kind == 'api' else ''}{cid}", params, body,
                               pre=[f"BU({L}, {names})"] + list(more), stubs=["sym_repr"]))
    return out
