"""C08 - validation is read-only: inputs and schema unchanged, results repeatable."""
from engine.runner import mk_case

U = "Union[int, bool, None, str]"
UN = "Union[int, bool, None]"

DOC = "{'a': {'b': u1, 'c': [u2, u3]}, 'l': [u1, {'b': u2}], 's': 'true', 'n': '3', 1: u3}"
DOC_DEEP = "{'a': u1, 'deep': {'flag': 'true', 'ns': ['3', 'x', u2]}, 'l': [{'flag': 'False'}, u3]}"
DOC2 = "{'a': {'b': u3, 'c': [u1]}, 'l': [{'b': u2}, 'x'], 's': 'x', 'n': 'x'}"

# object builders: source of a function body returning the tuple of shared objects (last = the one operated on)
BUILD = {
    "leaf": "c = Value.greater_than(t)\nobjs = (c,)",
    "comb": "p = Value.greater_than(t)\nq = Value.is_instance(int)\nc = (p & q) | Value.equal_to(None)\nobjs = (p, q, c)",
    "keycomb": "p = Key.equal_to('a')\nq = Value.is_instance(dict)\nc = p & q\nobjs = (p, q, c)",
    "part.mol": "tree = Value.is_instance(dict) & Value.length.greater_than(t)\npart = MapOrListValue(key='a', index=0, value=tree)\nobjs = (tree, part)",
    "part.map": "tree = Value.is_instance(dict) | Value.truthy()\npart = MapValue(key=Key.not_equal_to('s'), value=tree)\nobjs = (tree, part)",
    "path": "vc = Value.is_instance(dict) & Value.truthy()\npath = DataPath(MapValue(value=vc), 'c', ListValue(index=Index.less_than(t)))\nobjs = (vc, path)",
    "path.mol": "path = DataPath(MapOrListValue(), MapOrListValue(value=Value.greater_than(t)))\nobjs = (path,)",
    "path.mod": "base = DataPath('l', ListValue())\npath = base.dtype().first()\nobjs = (base, path)",
    "rule": "cond = Value.greater_than(t) & Value.is_instance(int)\npath = DataPath('a', 'c', ListValue())\nrule = Rule(path, cond)\nobjs = (cond, path, rule)",
    "rule.mol": "cond = Value.greater_than(t) | Value.is_instance(str)\nrule = Rule((MapOrListValue(), MapOrListValue()), cond)\nobjs = (cond, rule)",
    "rule.cast": "cond = Value.equal_to(True)\nrule = Rule(('s',), cond, cast={str: valida.casting.cast_string_to_bool})\nobjs = (cond, rule)",
    "rule.cast.fan": "cond = Value.is_instance(int, dict, list)\nrule = Rule((MapValue(),), cond, cast={str: int})\nobjs = (cond, rule)",
    "rule.cast.deep": "cond = Value.equal_to(True)\nrule = Rule(('deep', 'flag'), cond, cast={str: valida.casting.cast_string_to_bool})\nobjs = (cond, rule)",
    "rule.cast.deep.fan": "cond = Value.is_instance(int)\nrule = Rule(('deep', 'ns', ListValue()), cond, cast={str: int})\nobjs = (cond, rule)",
    "schema.cast.containers": "r1 = Rule((MapValue(),), Value.truthy() | Value.falsy(), cast={str: int})\nr2 = Rule(('deep', 'ns', ListValue()), Value.is_instance(int, str), cast={str: int})\nr3 = Rule((MapValue(), 'flag'), Value.is_instance(bool), cast={str: valida.casting.cast_string_to_bool})\nsch = Schema([r1, r2, r3])\nobjs = (r1, r2, r3, sch)",
    "schema.extended": "base = Rule(('a',), Value.truthy() | Value.falsy())\nsch = Schema([base])\nextra = Schema([Rule(('flag',), Value.equal_to(True), cast={str: valida.casting.cast_string_to_bool}), Rule(('ns', ListValue()), Value.is_instance(int), cast={str: int})])\nsch.add_schema(extra, DataPath('deep'))\nobjs = (base, extra, sch)",
    "schema.extended.edit": "base = Rule(('a',), Value.truthy() | Value.falsy())\nsch = Schema([base])\nsch.rules.append(Rule(('deep', 'flag'), Value.equal_to(True), cast={str: valida.casting.cast_string_to_bool}))\nobjs = (base, sch)",
    "rule.patharg": "ref = DataPath('a', 'b')\ncond = Value.equal_to(ref)\nrule = Rule(('l', 0), cond)\nobjs = (ref, cond, rule)",
    "rule.patharg.in_list": "ref1 = DataPath('a', 'b')\nref2 = DataPath('n')\ncond = Value.in_([ref1, ref2, 0])\nrule = Rule(('l', 0), cond)\nobjs = (ref1, ref2, cond, rule)",
    "rule.patharg.in_map": "ref1 = DataPath('a', 'b')\ncond = Value.equal_to({'b': ref1}) | Value.items_contain(b=DataPath(1))\nrule = Rule(('l', 1), cond)\nobjs = (ref1, cond, rule)",
    "schema.patharg.nested": "c1 = Value.in_([DataPath('a', 'b'), DataPath('n'), 0])\nc2 = Value.equal_to({'b': DataPath(1)})\nr1 = Rule(('l', 0), c1)\nr2 = Rule(('l', 1), c2)\nsch = Schema([r1, r2])\nobjs = (c1, c2, r1, r2, sch)",
    "schema": "c1 = Value.greater_than(t)\nc2 = Value.is_instance(dict)\np1 = DataPath('a', 'c', ListValue())\nr1 = Rule(p1, c1)\nr2 = Rule(('a',), c2)\nr3 = Rule(('l', ListValue()), c1)\nsch = Schema([r1, r2, r3])\nobjs = (c1, c2, p1, r1, r2, r3, sch)",
    "schema.cast": "c1 = Value.equal_to(t)\nc2 = Value.equal_to(True)\nr1 = Rule(('n',), c1, cast={str: int})\nr2 = Rule(('s',), c2, cast={str: valida.casting.cast_string_to_bool})\nr3 = Rule((MapValue(),), Value.truthy() | Value.is_instance(bool))\nsch = Schema([r1, r2, r3])\nobjs = (c1, c2, r1, r2, r3, sch)",
}
OPS = {
    "leaf": ["objs[-1].filter(doc['a']['c'])", "objs[-1].filter(Data(doc['l']))", "objs[-1].test_all(doc['a']['c'])"],
    "comb": ["objs[-1].filter(doc['a']['c'])", "Data(doc['l']).filter(objs[-1])"],
    "keycomb": ["objs[-1].filter(doc)"],
    "part.mol": ["objs[-1].filter(doc)", "objs[-1].filter(doc['l'])"],
    "part.map": ["objs[-1].filter(doc)"],
    "path": ["objs[-1].get_data(doc, return_paths=True)", "Data(doc).get(objs[-1])"],
    "path.mol": ["objs[-1].get_data(doc, return_paths=True)"],
    "path.mod": ["objs[-1].get_data(doc)", "objs[0].get_data(doc, return_paths=True)"],
    "rule": ["objs[-1].test(doc)", "objs[-1].test(Data(doc))"],
    "rule.mol": ["objs[-1].test(doc)"],
    "rule.cast": ["objs[-1].test(doc)", "Schema([objs[-1]]).validate(doc)"],
    "rule.cast.fan": ["objs[-1].test(doc)"],
    "rule.cast.deep": ["objs[-1].test(doc)", "Schema([objs[-1]]).validate(doc)", "objs[-1].test(Data(doc))"],
    "rule.cast.deep.fan": ["objs[-1].test(doc)", "Schema([objs[-1]]).validate(doc)"],
    "schema.cast.containers": ["objs[-1].validate(doc)"],
    "schema.extended": ["objs[-1].validate(doc)"],
    "schema.extended.edit": ["objs[-1].validate(doc)"],
    "rule.patharg": ["objs[-1].test(doc)"],
    "rule.patharg.in_list": ["objs[-1].test(doc)"],
    "rule.patharg.in_map": ["objs[-1].test(doc)"],
    "schema.patharg.nested": ["objs[-1].validate(doc)"],
    "schema": ["objs[-1].validate(doc)", "objs[-1].validate(Data(doc))"],
    "schema.cast": ["objs[-1].validate(doc)"],
}


def BOUNDS(ctx):
    return {
        "operations": "filter, Data.filter, test_all, part.filter, get_data / Data.get (with and without paths, with modifiers), "
                      "Rule.test, Schema.validate - with and without casts, on raw and on caller-owned Data-wrapped documents, with "
                      "a data-path argument; on the shared-object graphs listed in props/C08.py BUILD",
        "one-step claim": "on every symbolic path the identity graph of every valida object reachable from the arguments (attribute -> "
                          "id, through tuples/lists/dicts), the type-exact structure of the caller's document and the ids of its nested "
                          "containers are the same before and after the call",
        "sequences": "length 2-3 on shared objects vs the same calls on freshly built objects; the general statement (any length, any "
                     "interleaving) follows by induction from the one-step claim since only reads are shared",
        "symbolic": "document leaves u1 (Union), u2, u3 (int) and the threshold t; cast strings concrete",
        "outside": "real threads are not executed (CrossHair is single-threaded; the schedule quantifier is discharged by the "
                   "read-only induction); ConditionLike.filter(data_obj, data_has_paths=True) on a caller-owned Data (internal protocol)",
    }


def step_case(bid, n, op, L):
    build = BUILD[bid]
    lt = UN if "cast" in bid else U
    params = [("t", "int"), ("u1", lt), ("u2", "int"), ("u3", "int")]
    body = f"""
{build}
doc = {DOC_DEEP if ('deep' in bid or 'containers' in bid or 'extended' in bid) else DOC}
snap = idsnap(*objs)
dsnap, dids = tx(doc), docids(doc)
res = {op}
ok = note('valida objects unchanged', idsnap(*objs) == snap)
ok = ok and note("caller's document type-exactly unchanged", tx(doc) == dsnap)
ok = ok and note("caller's containers not rebound", docids(doc) == dids)
for name in ('cast_data',):
    if hasattr(res, name):
        ok = ok and note('the result does not share containers with the document', disjoint_containers(getattr(res, name), doc))
return ok
"""
    return mk_case(f"c08.step.{bid}.{n}", params, body, pre=[f"BU({L}, t, u1, u2, u3)"], stubs=["sym_repr"])


def data_step_case(bid, op, L, tag):
    """caller-owned Data wrapper: the wrapper itself must be unchanged too."""
    build = BUILD[bid]
    lt = UN if "cast" in bid else U
    params = [("t", "int"), ("u1", lt), ("u2", "int"), ("u3", "int")]
    body = f"""
{build}
doc = {DOC}
wrapped = Data(doc)
snap = idsnap(wrapped, *objs)
dsnap = tx(doc)
res = {op}
ok = note('valida objects and the Data wrapper unchanged', idsnap(wrapped, *objs) == snap)
ok = ok and note("caller's document unchanged", tx(doc) == dsnap and tx(wrapped.get_original()) == dsnap)
return ok
"""
    return mk_case(f"c08.step.data.{bid}.{tag}", params, body, pre=[f"BU({L}, t, u1, u2, u3)"], stubs=["sym_repr"])


def seq_case(bid, calls, fresh_calls, L, tag):
    build = BUILD[bid]
    indented = "\n".join("    " + ln for ln in build.split("\n"))
    lt = UN if "cast" in bid else U
    params = [("t", "int"), ("u1", lt), ("u2", "int"), ("u3", "int")]
    body = f"""
def make():
{indented}
    return objs
d1 = {DOC}
d2 = {DOC2}
objs = make()
shared = [{', '.join(calls)}]
fresh = [{', '.join(fresh_calls)}]
return same('calls on shared objects give what fresh objects give', shared, fresh)
"""
    return mk_case(f"c08.seq.{bid}.{tag}", params, body, pre=[f"BU({L}, t, u1, u2, u3)"], stubs=["sym_repr"])


def cases(ctx):
    L = 2 if ctx.quick else 3
    out = []
    for bid, ops in OPS.items():
        for n, op in enumerate(ops):
            out.append(step_case(bid, n, op, L))
            if not ctx.quick:
                c = step_case(bid, n, op, L)
                c["id"] += ".doc2"
                c["body"] = c["body"].replace("doc = " + (DOC_DEEP if ('deep' in bid or 'containers' in bid or 'extended' in bid) else DOC),
                                              "doc = " + (DOC2 if not ('deep' in bid or 'containers' in bid or 'extended' in bid) else DOC_DEEP.replace("'true'", "'x'").replace("'3'", "'true'")))
                out.append(c)
    # paths bound to a caller-owned raw container (source_data=...), used directly and as a condition argument: the path object, the
    # bound container and what later calls see after the caller edits that container
    BOUND = """
limits = {'max': u2, 'xs': [u3, 5, u1]}
bound = DataPath('xs', ListValue(), source_data=limits)
ref = DataPath('max', source_data=limits)
cond = Value.less_than_or_equal_to(ref) | Value.is_instance(str)
rule = Rule(('a', 'c', ListValue()), cond)
sch = Schema([rule, Rule(('l',), Value.length.greater_than(DataPath('xs', source_data=limits).length()))])
objs = (bound, ref, cond, rule, sch)
doc = {'a': {'b': u1, 'c': [u2, u3]}, 'l': [u1, {'b': u2}]}
"""
    for on, op in enumerate(("bound.get_data()", "bound.get_data(return_paths=True)", "bound.dtype().first().get_data()", "rule.test(doc)", "sch.validate(doc)", "cond.filter(doc['a']['c'])")):
        body = BOUND + f"""
snap, lsnap, lids, dsnap = idsnap(*objs), tx(limits), docids(limits), tx(doc)
{op}
ok = note('valida objects unchanged', idsnap(*objs) == snap)
ok = ok and note('the bound container is still the very object the caller bound', bound.source_data is limits and ref.source_data is limits)
ok = ok and note('bound container and document unchanged', tx(limits) == lsnap and docids(limits) == lids and tx(doc) == dsnap)
return ok
"""
        out.append(mk_case(f"c08.step.bound_paths.{on}", [("u1", "Optional[int]"), ("u2", "int"), ("u3", "int")], body, pre=[f"BU({L}, u1, u2, u3)"], stubs=["sym_repr"]))
    body = BOUND + """
r1 = (tx(bound.get_data()), rule.test(doc).is_valid, sch.validate(doc).is_valid)
limits['max'] = t
limits['xs'] = [t]
fresh_rule = Rule(('a', 'c', ListValue()), Value.less_than_or_equal_to(t) | Value.is_instance(str))
ok = same('after the caller edits the bound container: the path follows it', tx(bound.get_data()), tx([t]))
ok = ok and same('... and so does the rule that takes it as an argument', summarize_test(rule.test(doc)), summarize_test(fresh_rule.test(doc)))
ok = ok and same('... and the schema', sch.validate(doc).num_failures, Schema([fresh_rule, Rule(('l',), Value.length.greater_than(1))]).validate(doc).num_failures)
return ok
"""
    out.append(mk_case("c08.seq.bound_paths.edit", [("t", "int"), ("u1", "Optional[int]"), ("u2", "int"), ("u3", "int")], body, pre=[f"BU({L}, t, u1, u2, u3)"], stubs=["sym_repr"]))
    # two cast rules at different depths over a fan-out whose siblings are a castable string, a container holding a castable string, an
    # uncastable leaf and a list: nothing of the caller's document ends up inside the validation copy (in either sibling order)
    for cid, items in (("str_first", "['5', {'n': '7'}, u1, ['9'], {'n': u2}]"), ("container_first", "[{'n': '7'}, '5', ['9'], u1, 'x']")):
        for on, op in enumerate(("sch.validate(doc)", "r1.test(doc)", "Schema([r3, r2, r1]).validate(doc)")):
            body = f"""
r1 = Rule(('items', ListValue()), Value.is_instance(int, dict, list) | Value.equal_to(None), cast={{str: int}})
r2 = Rule(('items', ListValue(), 'n'), Value.greater_than(t), cast={{str: int}})
r3 = Rule(('items', ListValue(), 0), Value.is_instance(int), cast={{str: int}})
sch = Schema([r1, r2, r3])
objs = (r1, r2, r3, sch)
doc = {{'items': {items}, 'k': u2}}
snap, dsnap, dids = idsnap(*objs), tx(doc), docids(doc)
res = {op}
ok = note('valida objects unchanged', idsnap(*objs) == snap)
ok = ok and note("caller's document type-exactly unchanged", tx(doc) == dsnap and docids(doc) == dids)
if hasattr(res, 'cast_data'):
    ok = ok and note('the result does not share containers with the document', disjoint_containers(res.cast_data, doc))
return ok
"""
            out.append(mk_case(f"c08.step.casts_two_depths.{cid}.{on}", [("t", "int"), ("u1", "Optional[int]"), ("u2", "int")], body, pre=[f"BU({L}, t, u1, u2)"], stubs=["sym_repr"]))
    out.append(data_step_case("rule", "objs[-1].test(wrapped)", L, "test"))
    out.append(data_step_case("schema", "objs[-1].validate(wrapped)", L, "validate"))
    out.append(data_step_case("schema.cast", "objs[-1].validate(wrapped)", L, "validate.cast"))
    out.append(data_step_case("path", "wrapped.get(objs[-1], return_paths=True)", L, "get"))
    out.append(data_step_case("comb", "wrapped.filter(objs[-1])", L, "filter"))
    SV = "summarize_validation"
    ST = "summarize_test"
    out.append(seq_case("schema", [f"{SV}(objs[-1].validate(d1))", f"{SV}(objs[-1].validate(d2))", f"{SV}(objs[-1].validate(d1))"],
                        [f"{SV}(make()[-1].validate({DOC}))", f"{SV}(make()[-1].validate({DOC2}))", f"{SV}(make()[-1].validate({DOC}))"], L, "v1v2v1"))
    out.append(seq_case("schema.cast", [f"{SV}(objs[-1].validate(d1))", f"{SV}(objs[-1].validate(d2))", f"{SV}(objs[-1].validate(d1))"],
                        [f"{SV}(make()[-1].validate({DOC}))", f"{SV}(make()[-1].validate({DOC2}))", f"{SV}(make()[-1].validate({DOC}))"], L, "v1v2v1"))
    out.append(seq_case("schema.cast", [f"{SV}(objs[-1].validate(d2))", f"{ST}(objs[2].test(d1))", f"{SV}(objs[-1].validate(d1))"],
                        [f"{SV}(make()[-1].validate({DOC2}))", f"{ST}(make()[2].test({DOC}))", f"{SV}(make()[-1].validate({DOC}))"], L, "v2t1v1"))
    out.append(seq_case("rule", [f"{ST}(objs[-1].test(d1))", "objs[0].filter(d1['a']['c']).result", f"{ST}(objs[-1].test(d2))", "objs[1].get_data(d1)"],
                        [f"{ST}(make()[-1].test({DOC}))", f"make()[0].filter(({DOC})['a']['c']).result", f"{ST}(make()[-1].test({DOC2}))", f"make()[1].get_data({DOC})"], L, "t1f1t2g1"))
    out.append(seq_case("rule.cast", [f"{ST}(objs[-1].test(d1))", f"{ST}(objs[-1].test(d1))", f"{ST}(objs[-1].test(d2))"],
                        [f"{ST}(make()[-1].test({DOC}))", f"{ST}(make()[-1].test({DOC}))", f"{ST}(make()[-1].test({DOC2}))"], L, "t1t1t2"))
    out.append(seq_case("part.mol", ["objs[-1].filter(d1).result", "objs[-1].filter(d1['l']).result", "objs[-1].filter(d1).result", "objs[0].filter(d1).result"],
                        [f"make()[-1].filter({DOC}).result", f"make()[-1].filter(({DOC})['l']).result", f"make()[-1].filter({DOC}).result", f"make()[0].filter({DOC}).result"], L, "map_list_map"))
    out.append(seq_case("rule.patharg", [f"{ST}(objs[-1].test(d1))", f"{ST}(objs[-1].test(d2))", "objs[0].get_data(d1)"],
                        [f"{ST}(make()[-1].test({DOC}))", f"{ST}(make()[-1].test({DOC2}))", f"make()[0].get_data({DOC})"], L, "t1t2g1"))
    out.append(seq_case("rule.patharg.in_list", [f"{ST}(objs[-1].test(d1))", f"{ST}(objs[-1].test(d2))", f"{ST}(objs[-1].test(d1))", "repr(objs[2])"],
                        [f"{ST}(make()[-1].test({DOC}))", f"{ST}(make()[-1].test({DOC2}))", f"{ST}(make()[-1].test({DOC}))", "repr(make()[2])"], L, "t1t2t1"))
    out.append(seq_case("schema.patharg.nested", [f"{SV}(objs[-1].validate(d2))", f"{SV}(objs[-1].validate(d1))", "objs[-1] == make()[-1]", "tx(objs[0].to_json_like())"],
                        [f"{SV}(make()[-1].validate({DOC2}))", f"{SV}(make()[-1].validate({DOC}))", "True", "tx(make()[0].to_json_like())"], L, "v2v1"))
    # documents whose nested containers are instances of dict / list subclasses (OrderedDict, defaultdict, a user subclass),
    # as YAML / config loaders hand them out: casts are written to a private copy of those too
    body = """
import collections
class Steps(list):
    pass
doc = {'opts': collections.OrderedDict([('verbose', 'true'), ('retries', '3'), ('x', u1)]),
       'limits': collections.defaultdict(dict, {'cpu': {'count': '4'}}), 'steps': Steps(['1', '2', u1]), 'plain': {'n': '7'}}
r1 = Rule(('opts', 'retries'), Value.equal_to(t), cast={str: int})
r2 = Rule(('limits', 'cpu', 'count'), Value.greater_than(t), cast={str: int})
r3 = Rule(('steps', ListValue()), Value.is_instance(int), cast={str: int})
r4 = Rule(('opts', 'verbose'), Value.equal_to(True), cast={str: valida.casting.cast_string_to_bool})
r5 = Rule(('plain', 'n'), Value.dtype.equal_to(str))
sch = Schema([r1, r2, r3, r4, r5])
dsnap, dids = tx(doc), docids(doc)
v = sch.validate(doc)
ok = note("Schema.validate left the caller's document type-exactly unchanged", tx(doc) == dsnap) and note('containers not rebound', docids(doc) == dids)
ok = ok and note('cast data shares no container with the document', disjoint_containers(v.cast_data, doc))
for r in (r1, r2, r3, r4):
    res = r.test(doc)
    ok = ok and note("Rule.test left the caller's document type-exactly unchanged", tx(doc) == dsnap) and note('containers not rebound', docids(doc) == dids)
ok = ok and same('a later rule sees the uncast values', summarize_test(r5.test(doc))[:3], (True, True, 0))
ok = ok and same('same verdict again', (v.is_valid, v.num_failures), (sch.validate(doc).is_valid, sch.validate(doc).num_failures))
return ok
"""
    out.append(mk_case("c08.step.container_subclasses", [("t", "int"), ("u1", UN)], body, pre=[f"BU({L}, t, u1)"], stubs=["sym_repr"]))
    # results do not depend on what was built or asked earlier in the process (hidden process-wide state is state too):
    # path parts that compare equal across numeric types (2 / 2.0, 1 / True / 1.0, 0 / 0.0 / False), in both orders,
    # every answer compared with the reference model rather than with later-built 'fresh' objects
    for oid, prims in [("floats_first", "(2.0, 1.0, 0.0, 2, 1, 0, True, False)"), ("ints_first", "(2, 1, 0, 2.0, 1.0, 0.0, True, False)"),
                       ("bools_first", "(True, False, 1, 0, 1.0, 0.0, 2, 2.0)")]:
        body = f"""
doc = {{'xs': [u1, 'b', u2], 'm': {{2: u1, 1: u2, 0: 7}}, 'n': [[u2, 'd']]}}
ok = True
for prim in {oid and prims}:
    for parts in (('xs', prim), ('m', prim), ('n', 0, prim)):
        PT = tuple(('prim', q) for q in parts)
        exp = ref_walk(PT, doc)
        expv = exp[0][0] if exp else None
        ok = ok and note('Data.get(*parts)', Data(doc).get(*parts) is expv)
        ok = ok and note('DataPath.get_data', DataPath(*parts).get_data(doc) is expv)
        t = Rule(parts, Value.is_instance(int)).test(doc)
        ok = ok and same('rule on that path', (t.tested, t.is_valid), (bool(exp), (not exp) or type(expv) in (int, bool)))
return ok
"""
        out.append(mk_case(f"c08.seq.numeric_twin_parts.{oid}", [("u1", UN), ("u2", "int")], body, pre=[f"BU({L}, u1, u2)"], stubs=["sym_repr"]))
    # one condition object shared by two rules and a stand-alone filter; one path shared by two rules
    body = f"""
def make():
    c = Value.greater_than(t) & Value.is_instance(int)
    p = DataPath('a', 'c', ListValue())
    return c, p, Rule(p, c), Rule(p, Value.truthy()), Rule(('l', ListValue()), c)
d1 = {DOC}
c, p, r1, r2, r3 = make()
snap = idsnap(c, p, r1, r2, r3)
shared = [summarize_test(r1.test(d1)), c.filter(d1['a']['c']).result, summarize_test(r2.test(d1)), summarize_validation(Schema([r1, r3]).validate(d1))]
ok = note('shared objects unchanged', idsnap(c, p, r1, r2, r3) == snap)
fresh = [summarize_test(make()[2].test({DOC})), make()[0].filter(({DOC})['a']['c']).result, summarize_test(make()[3].test({DOC})), summarize_validation(Schema([make()[2], make()[4]]).validate({DOC}))]
return ok and same('shared vs fresh', shared, fresh)
"""
    out.append(mk_case("c08.seq.shared_cond_and_path", [("t", "int"), ("u1", "int" if ctx.quick else U), ("u2", "int"), ("u3", "int")], body, pre=[f"BU({L}, t, u1, u2, u3)"], stubs=["sym_repr"]))
    return out
