"""Validate the reference models against the maintainers' own expectations: literal
(term, data, expected) triples transcribed from /repo/tests (test_filters.py, test_datapath.py,
test_rules.py). The ORACLE alone must reproduce the expected values (valida is not asked for
the verdict) - "validate the translator with the repo's own test inputs". In a second pass the
same terms are built with the real DSL and must agree too (so the transcription is right).
Exit 0 iff every triple agrees."""
import sys

from engine.oracle import ref_tree, ref_walk, ref_rule, ref_get
from engine.terms import V, K, IX, NULL, leaf, build_cond, build_path

P = lambda v: ("prim", v)  # noqa: E731
M = lambda c=NULL: ("map", c)  # noqa: E731
L = lambda c=NULL: ("list", c)  # noqa: E731

c1a, c1b, c1c = V("less_than", 2), V("greater_than", 2), V("equal_to", 3)

# (label, condition term, data, expected result list)            tests/test_filters.py
FILTERS = [
    ("lt", c1a, [1, 2, 3, 4], [True, False, False, False]),
    ("gt", c1b, [1, 2, 3, 4], [False, False, True, True]),
    ("eq", c1c, [1, 2, 3, 4], [False, False, True, False]),
    ("and", ("and", c1a, c1b), [1, 2, 3, 4], [False, False, False, False]),
    ("or", ("or", c1a, c1b), [1, 2, 3, 4], [True, False, True, True]),
    ("xor", ("xor", c1a, c1b), [1, 2, 3, 4], [True, False, True, True]),
    ("a&b|c", ("or", ("and", c1a, c1b), c1c), [1, 2, 3, 4], [False, False, True, False]),
    ("a|b&c", ("or", c1a, ("and", c1b, c1c)), [1, 2, 3, 4], [True, False, True, False]),
    ("a&(b|c)", ("and", c1a, ("or", c1b, c1c)), [1, 2, 3, 4], [False, False, False, False]),
    # tests/test_conditions.py / test_datapath.py
    ("key.eq sub data", K("equal_to", "a"), {"a": 1, "b": 2}, [True, False]),
    ("null list", NULL, [1, 2, 3], [True, True, True]),
    ("null map", NULL, {"a": 1, "b": 2}, [True, True]),
    ("truthy ints", V("truthy"), [0, 1, 2], [False, True, True]),
    ("falsy ints", V("falsy"), [0, 1, 2], [True, False, False]),
    ("key in & value lte", ("and", K("in_", ["a", "b", "c"]), V("less_than_or_equal_to", 3)), {"a": 1, "b": 4, "c": 3, "d": 2},
     [True, False, True, False]),
]

# (label, path term, data, expected get_data(return_paths=False))           tests/test_datapath.py
A123 = {"A1": {"X1": 1}, "A2": {"X1": 2}, "A3": {"X1": 3}}
D1 = {"a1": {"b1": 1, "b2": [1, 2, 3]}}
PATHS = [
    ("M/M", (M(), M()), A123, [1, 2, 3]),
    ("M(k1|k2)/M(X1)", (M(("or", K("equal_to", "A1"), K("equal_to", "A2"))), M(K("equal_to", "X1"))), A123, [1, 2]),
    ("M", (M(),), A123, [{"X1": 1}, {"X1": 2}, {"X1": 3}]),
    ("a1", (P("a1"),), D1, {"b1": 1, "b2": [1, 2, 3]}),
    ("M(a1)", (M(K("equal_to", "a1")),), D1, [{"b1": 1, "b2": [1, 2, 3]}]),
    ("a1/b2/L", (P("a1"), P("b2"), L()), D1, [1, 2, 3]),
    ("a1/M", (P("a1"), M()), D1, [1, [1, 2, 3]]),
    ("A/B/L(dtype int)", (M(K("equal_to", "A")), M(K("equal_to", "B")), L(leaf("value", "dtype", "equal_to", int))), {"A": {"B": [1, 2.5, 3]}}, [1, 3]),
    ("M/M(dtype int)", (M(), M(leaf("value", "dtype", "equal_to", int))), {"A": {"b1": 1, "b2": 2.5, "b3": 4}}, [1, 4]),
    ("2 on list", (P(2),), [1, 2, 3], 3),
    ("2 on map", (P(2),), {0: 8, 1: 9, 2: 10}, 10),
    ("1/1/0 nested list", (P(1), P(1), P(0)), [[0, 1, 2], [3, [4, 5, 6]]], 4),
    ("M/mol", (M(), ("mol", IX("in_", [0, 2]), K("in_", ["b1"]), NULL)), {"A": [900, 910, 920], "B": {"b1": 10, "b2": 11}}, [900, 920, 10]),
    ("empty", (), {"A": [900, 910, 920]}, {"A": [900, 910, 920]}),
    ("absent non-concrete", (M(K("equal_to", "B")),), {"A": 1}, []),
    ("absent concrete", (P("B"),), {"A": 1}, None),
    ("map part on list", (M(K("equal_to", "A")),), [9, 8, 7], []),
    ("str part on list", (P("A"),), [9, 8, 7], None),
    ("list part on map", (L(IX("equal_to", 0)),), {"A": 1}, []),
    ("int part absent on map", (P(0),), {"A": 1}, None),
    ("L(0)", (L(IX("equal_to", 0)),), [1, 2, 3], [1]),
]
ABC = {"A1": {"A1B1": {"A1B1C1": 1}, "A1B2": {"A1B2C2": 2, "A1B2C3": 3}}, "A2": {"A2B1": {"A2B1C4": 4, "A2B1C5": 5, "A2B1C6": 6}}}
WITH_PATHS = [
    ("M/M/M", (M(), M(), M()), ABC, [(1, ("A1", "A1B1", "A1B1C1")), (2, ("A1", "A1B2", "A1B2C2")), (3, ("A1", "A1B2", "A1B2C3")),
                                    (4, ("A2", "A2B1", "A2B1C4")), (5, ("A2", "A2B1", "A2B1C5")), (6, ("A2", "A2B1", "A2B1C6"))]),
]
# (label, path term, modifier, multi, data, expected)          tests/test_datapath.py (datum / multi types)
C_MAP = {"c": {"C1": 19, "C2": 20}, "d": {"D1": 21, "D2": 22, "D3": 23}}
MODS = [
    ("map_keys concrete", (P("c"),), "map_keys", None, C_MAP, ["C1", "C2"]),
    ("map_values concrete", (P("c"),), "map_values", None, C_MAP, [19, 20]),
    ("length concrete", (P("c"),), "length", None, C_MAP, 2),
    ("dtype concrete", (P("c"),), "dtype", None, C_MAP, dict),
    ("length non-concrete", (M(),), "length", None, C_MAP, [2, 3]),
    ("first", (M(),), None, "first", C_MAP, {"C1": 19, "C2": 20}),
    ("last", (M(),), None, "last", C_MAP, {"D1": 21, "D2": 22, "D3": 23}),
    ("length first", (M(),), "length", "first", C_MAP, 2),
    ("map_values last", (M(),), "map_values", "last", C_MAP, [21, 22, 23]),
    ("length all", (M(),), "length", "all", C_MAP, [2, 3]),
]
# (label, path term, condition term, data, expected is_valid)         tests/test_rules.py
RULES = [
    ("A eq 1", (P("A"),), V("equal_to", 1), {"A": 1}, True),
    ("A/1 eq 1", (P("A"), P(1)), V("equal_to", 1), {"A": [0, 1, 2]}, True),
    ("A length 3", (P("A"),), leaf("value", "length", "equal_to", 3), {"A": [0, 1, 2]}, True),
    ("A dtype dict", (P("A"),), leaf("value", "dtype", "equal_to", dict), {"A": {"b": 1, "c": 2}}, True),
    ("keys_equal_to", (P("A"),), V("keys_equal_to", "b", "c"), {"A": {"b": 1, "c": 2}}, True),
    ("items_contain", (P("A"),), V("items_contain", b=1), {"A": {"b": 1, "c": 2}}, True),
    ("items_contain false", (P("A"),), V("items_contain", a=1), {"A": {"b": 1, "c": 2}}, False),
    ("keys_is_instance str", (P("A"),), V("keys_is_instance", str), {"A": {"b": 0, "c": 1}, "B": {1: 0}}, True),
    ("keys_is_instance int", (P("A"),), V("keys_is_instance", int), {"A": {"b": 0, "c": 1}, "B": {1: 0}}, False),
    ("non-concrete keys_is_instance", (M(K("in_", ["A", "B"])),), V("keys_is_instance", str), {"A": {"b": 0, "c": 1}, "B": {"b": 0}, "C": {1: 0}}, True),
    ("non-concrete keys_is_instance false", (M(K("in_", ["A", "C"])),), V("keys_is_instance", str), {"A": {"b": 0, "c": 1}, "B": {"b": 0}, "C": {1: 0}}, False),
    ("absent non-concrete", (M(K("equal_to", "B")),), V("equal_to", 2), {"A": 1}, True),
    ("absent concrete", (P("B"),), V("equal_to", 2), {"A": 1}, True),
    ("b dtype int", (P("b"),), leaf("value", "dtype", "equal_to", int), {"a": [1, 2, 3], "b": 2}, True),
]


def run(real=True, quiet=False):
    bad = 0
    n = 0

    def check(what, got, exp):
        nonlocal bad, n
        if "(real DSL)" in what and not real:
            return
        n += 1
        if got != exp:
            bad += 1
            if not quiet:
                print(f"ORACLE DISAGREES WITH THE TEST SUITE: {what}: oracle={got!r} expected={exp!r}")

    for label, term, data, exp in FILTERS:
        check(f"filter {label}", ref_tree(term, data), exp)
        check(f"filter {label} (real DSL)", real and build_cond(term).filter(data).result, exp)
    for label, path, data, exp in PATHS:
        check(f"path {label}", ref_get(path, data), exp)
        check(f"path {label} (real DSL)", real and build_path(path).get_data(data), exp)
    for label, path, data, exp in WITH_PATHS:
        check(f"paths {label}", ref_walk(path, data), exp)
        check(f"paths {label} (real DSL)", real and build_path(path).get_data(data, return_paths=True), exp)
    for label, path, mod, multi, data, exp in MODS:
        check(f"modifier {label}", ref_get(path, data, mod, multi), exp)
        if real:
            p = build_path(path)
            if mod:
                p = getattr(p, mod)()
            if multi:
                p = getattr(p, multi)()
            check(f"modifier {label} (real DSL)", p.get_data(data), exp)
    from valida import Rule

    for label, path, cond, data, exp in RULES:
        check(f"rule {label}", ref_rule(path, cond, data)[0], exp)
        check(f"rule {label} (real DSL)", real and Rule(build_path(path), build_cond(cond)).test(data).is_valid, exp)
    return n, bad


def main():
    n, bad = run(real=True)
    print(f"oracle self-test: {n} comparisons against the repository's test literals, {bad} disagreements")
    return 1 if bad else 0


if __name__ == "__main__":
    sys.exit(main())
