"""Builders: term (engine.oracle term language) -> real valida object / spec."""
import valida.conditions as C
import valida.datapath as P

_CLS = {
    ("value", None): lambda: C.Value,
    ("value", "length"): lambda: C.Value.length,
    ("value", "dtype"): lambda: C.Value.dtype,
    ("key", None): lambda: C.Key,
    ("key", "length"): lambda: C.Key.length,
    ("key", "dtype"): lambda: C.Key.dtype,
    ("index", None): lambda: C.Index,
}

GENERAL = [
    "equal_to", "not_equal_to", "less_than", "greater_than", "less_than_or_equal_to",
    "greater_than_or_equal_to", "in_", "not_in", "in_range", "not_in_range",
    "equal_to_approx", "factor_of", "has_factor", "truthy", "falsy", "null", "is_instance",
]
MAPC = [
    "keys_contain", "keys_contain_any_of", "keys_contain_all_of", "keys_contain_N_of",
    "keys_contain_at_least_N_of", "keys_contain_at_most_N_of", "keys_contain_one_of",
    "keys_contain_at_least_one_of", "keys_contain_at_most_one_of", "keys_equal_to",
    "keys_is_instance", "items_contain", "allowed_keys", "required_keys", "forbidden_keys",
]
ALIASES = {"eq": "equal_to", "lt": "less_than", "gt": "greater_than",
           "lte": "less_than_or_equal_to", "gte": "greater_than_or_equal_to"}
CLASSES = [("value", None), ("value", "length"), ("value", "dtype"), ("key", None),
           ("key", "length"), ("key", "dtype"), ("index", None)]


def callables_of(kind, pre):
    if pre is None and kind in ("value", "key"):
        return GENERAL + MAPC
    return list(GENERAL)


def leaf_kinds():
    """All legal (kind, pre, callable) triples, regenerated from the live classes."""
    out = []
    for kind, pre in CLASSES:
        cls = _CLS[(kind, pre)]()
        for name in GENERAL + MAPC:
            if hasattr(cls, name):
                out.append((kind, pre, name))
    return out


def cond_class(kind, pre):
    return _CLS[(kind, pre)]()


def build_cond(term):
    tag = term[0]
    if tag == "null":
        return C.NullCondition()
    if tag == "leaf":
        _, kind, pre, name, args, kwargs = term
        return getattr(cond_class(kind, pre), name)(*args, **dict(kwargs))
    a, b = build_cond(term[1]), build_cond(term[2])
    if tag == "and":
        return a & b
    if tag == "or":
        return a | b
    if tag == "xor":
        return a ^ b
    raise AssertionError(tag)


def build_part(part):
    tag = part[0]
    if tag == "prim":
        return part[1]
    if tag == "map":
        return P.MapValue(condition=build_cond(part[1]))
    if tag == "list":
        return P.ListValue(condition=build_cond(part[1]))
    if tag == "mol":
        return P.MapOrListValue(
            list_condition=build_cond(part[1]),
            map_condition=build_cond(part[2]),
            condition=build_cond(part[3]),
        )
    raise AssertionError(tag)


def build_path(path):
    return P.DataPath(*[build_part(p) for p in path])


def leaf(kind, pre, name, *args, **kwargs):
    return ("leaf", kind, pre, name, tuple(args), tuple(kwargs.items()))


def V(name, *a, **k):
    return leaf("value", None, name, *a, **k)


def K(name, *a, **k):
    return leaf("key", None, name, *a, **k)


def IX(name, *a, **k):
    return leaf("index", None, name, *a, **k)


NULL = ("null",)
