"""Run the cases of one property: pool of hard-killable workers, replay of every
counterexample against the real code, known-finding matching, evidence, exit code."""
import concurrent.futures as cf
import fnmatch
import importlib
import json
import os
import random
import shutil
import subprocess
import sys
import time

ROOT = os.path.dirname(os.path.dirname(os.path.abspath(__file__)))
PY = os.path.join(ROOT, ".venv", "bin", "python")
WORK = os.path.join(ROOT, ".work")
KF_PATH = os.path.join(ROOT, "known_findings.json")
# Where evidence / replays are written. Default: /verif itself (the registered commands). tools/seedtest.py points it at a
# scratch directory when a seeded change is checked from a scratch worktree (PYTHONPATH), so that neither /repo nor the
# committed evidence is touched and several seeded changes can be checked side by side.
OUT = os.environ.get("VERIF_OUT") or ROOT

EXIT_OK, EXIT_VIOLATION, EXIT_HARNESS = 0, 1, 3

ASSUMPTIONS = [
    "CrossHair 0.0.110's models of Python builtins (int/str/bool/float/list/dict proxies, copy.deepcopy, "
    "inspect.signature, isinstance/type) are faithful; z3 5.1.0 is sound",
    "the reference models in /verif/engine/oracle.py state the documented meaning (validated against the "
    "repository's own test literals by `vcheck selftest-oracle` and by a concrete witness run per case)",
    "ints are mathematical integers restricted to the signed 64-bit range by precondition; strings are bounded "
    "in length by precondition; NaN excluded (as in the properties' quantifiers)",
    "valida catches TypeError broadly (conditions.py _filter, datapath.py get_data): a proxy-intolerance "
    "TypeError raised inside valida could be swallowed by valida itself; counterexamples are protected by "
    "concrete replay, confirmations by the per-case concrete witness run",
    "skeleton dimensions (which callable/part kind/document shape/mapping keys/spec spelling) are enumerated, "
    "not solver-decided; they are listed under coverage.bounds",
]


class Ctx:
    """What a property module gets: tier, seed and the open known findings."""

    def __init__(self, tier, seed):
        self.tier = tier
        self.seed = seed
        self.quick = tier == "quick"
        self.kf = load_known_findings()

    def open(self, fid):
        for e in self.kf.get("open", []):
            if e["id"] == fid:
                return True
        return False


def load_known_findings():
    if os.path.exists(KF_PATH):
        return json.load(open(KF_PATH))
    return {"open": [], "fixed": []}


def mk_case(cid, params, body, pre=(), stubs=(), budget=None, known=None, setup="", note=""):
    return {
        "id": cid,
        "params": [list(p) for p in params],
        "pre": list(pre),
        "body": body,
        "stubs": list(stubs),
        "budget": budget,
        "known": known,
        "setup": setup,
        "note": note,
    }


def run_worker(case, workdir, kill_after):
    path = os.path.join(workdir, case["id"].replace("/", "_") + ".json")
    with open(path, "w") as f:
        json.dump(case, f)
    t0 = time.time()
    env = dict(os.environ)
    env.pop("VERIF_REPLAY", None)
    env["PYTHONHASHSEED"] = "0"
    try:
        p = subprocess.run(
            [PY, "-m", "engine.worker", path], cwd=ROOT, env=env,
            stdout=subprocess.PIPE, stderr=subprocess.PIPE, timeout=kill_after, text=True,
        )
        out, err = p.stdout, p.stderr
    except subprocess.TimeoutExpired as e:
        return {"id": case["id"], "status": "KILLED", "detail": f"hard wall-clock kill after {kill_after:.0f}s",
                "wall_s": round(time.time() - t0, 2), "paths": 0, "queries": 0, "z3_s": 0.0}
    res = None
    for line in out.splitlines():
        if line.startswith("@@RESULT@@"):
            res = json.loads(line[len("@@RESULT@@"):])
    if res is None:
        res = {"id": case["id"], "status": "HARNESS_ERROR",
               "detail": f"worker produced no result (rc={p.returncode}) stderr tail: {err[-1500:]}"}
    if "ASSERTION VIOLATION" in err and res["status"] == "CONFIRMED":
        res["status"], res["detail"] = "UNKNOWN", "z3 printed ASSERTION VIOLATION; treated as inconclusive"
    res.setdefault("paths", 0)
    res.setdefault("queries", 0)
    res.setdefault("z3_s", 0.0)
    return res


def write_replay(prop, case, res):
    from engine.worker import harness_source

    d = os.path.join(OUT, "replays", prop)
    os.makedirs(d, exist_ok=True)
    path = os.path.join(d, case["id"].replace("/", "_").replace(" ", "_") + ".py")
    src = harness_source(case)
    args_repr = res.get("args_repr") or repr(res.get("args"))
    body = f'''#!{PY}
"""Replay of a counterexample found by the {prop} check, case {case['id']}.
Runs the harness body on the solver's concrete arguments against /repo's working tree,
in an ordinary interpreter (no CrossHair). Exit 1 = the violation reproduces.
solver said: {res.get('detail', '')[:400]!r}
"""
import os, sys, json, traceback
os.environ["VERIF_REPLAY"] = "1"
sys.path.insert(0, {ROOT!r})
nan = float("nan"); inf = float("inf")
{src}
ARGS = {args_repr}

def _frame(exc):
    tb = traceback.extract_tb(exc.__traceback__)
    for fr in reversed(tb):
        if "/valida/" in fr.filename and "/site-packages/" not in fr.filename:
            return os.path.basename(fr.filename) + ":" + fr.name
    return tb[-1].name if tb else "?"

if __name__ == "__main__":
    print("case {case['id']} args:", ARGS)
    try:
        r = _body(**ARGS)
    except Exception as e:
        traceback.print_exc()
        print("@@REPLAY@@" + json.dumps({{"reproduced": True, "kind": "exception", "exc": type(e).__name__, "frame": _frame(e), "msg": str(e)[:200]}}))
        sys.exit(1)
    if r is not True:
        print("harness returned", r)
        print("@@REPLAY@@" + json.dumps({{"reproduced": True, "kind": "mismatch", "exc": None, "frame": None}}))
        sys.exit(1)
    print("@@REPLAY@@" + json.dumps({{"reproduced": False}}))
    sys.exit(0)
'''
    with open(path, "w") as f:
        f.write(body)
    os.chmod(path, 0o755)
    return path


def run_replay(path):
    env = dict(os.environ)
    env["PYTHONHASHSEED"] = "0"
    try:
        p = subprocess.run([PY, path], cwd=ROOT, env=env, stdout=subprocess.PIPE, stderr=subprocess.STDOUT,
                           timeout=120, text=True)
    except subprocess.TimeoutExpired:
        return {"reproduced": False, "error": "replay timed out"}, ""
    info = {"reproduced": False, "error": "no replay marker"}
    for line in p.stdout.splitlines():
        if line.startswith("@@REPLAY@@"):
            info = json.loads(line[len("@@REPLAY@@"):])
    return info, p.stdout


def match_known(kf, prop, case, info):
    for e in kf.get("open", []):
        if e["property"] != prop:
            continue
        m = e["match"]
        globs = m.get("case", "*")
        if isinstance(globs, str):
            globs = [globs]
        if not any(fnmatch.fnmatch(case["id"], g) for g in globs):
            continue
        if m.get("kind", "any") not in ("any", info.get("kind")):
            continue
        if m.get("exc") and m["exc"] != info.get("exc"):
            continue
        if m.get("frame") and m["frame"] != info.get("frame"):
            continue
        return e
    return None


def run_property(prop, tier, seed, only=None, jobs=None, verbose=False):
    t0 = time.time()
    # the reference models must reproduce the maintainers' own expectations (oracle only: the
    # code under check is not consulted, so a broken tree cannot make this fail)
    from engine import oracle_selftest

    n_lit, bad_lit = oracle_selftest.run(real=False, quiet=False)
    if bad_lit:
        print(f"HARNESS-ERROR property={prop}: the oracle disagrees with {bad_lit} of the repository's test literals")
        return EXIT_HARNESS, {}
    mod = importlib.import_module(f"props.{prop}")
    ctx = Ctx(tier, seed)
    cases = mod.cases(ctx)
    ids = [c["id"] for c in cases]
    assert len(ids) == len(set(ids)), f"duplicate case ids: {[i for i in ids if ids.count(i) > 1][:5]}"
    if only:
        cases = [c for c in cases if any(fnmatch.fnmatch(c["id"], o) for o in only)]
    default_budget = float(os.environ.get("VERIF_BUDGET", 60 if tier == "quick" else 240))
    for c in cases:
        if not c.get("budget"):
            c["budget"] = default_budget
    order = list(range(len(cases)))
    random.Random(seed).shuffle(order)
    # long cases first for better packing, deterministic given the seed
    order.sort(key=lambda i: -cases[i]["budget"])
    workdir = os.path.join(WORK, f"{prop}-{tier}-{os.getpid()}")
    shutil.rmtree(workdir, ignore_errors=True)
    os.makedirs(workdir)
    jobs = jobs or int(os.environ.get("VERIF_JOBS", os.cpu_count() or 4))
    results = {}
    try:
        with cf.ThreadPoolExecutor(max_workers=jobs) as ex:
            futs = {}
            for i in order:
                c = cases[i]
                kill = c["budget"] * 1.3 + 45  # twin (<=30 s CPU) + main budget + start-up
                futs[ex.submit(run_worker, c, workdir, kill)] = c
            for fu in cf.as_completed(futs):
                c = futs[fu]
                r = fu.result()
                results[c["id"]] = r
                if verbose:
                    print(f"  {r['status']:<13} {c['id']:<60} paths={r.get('paths')} q={r.get('queries')} "
                          f"wall={r.get('wall_s')} {r.get('detail', '')[:150] if r['status'] not in ('CONFIRMED',) else ''}",
                          flush=True)
    finally:
        shutil.rmtree(workdir, ignore_errors=True)

    counts = {k: 0 for k in ("CONFIRMED", "REFUTED", "UNKNOWN", "KILLED", "VACUOUS", "HARNESS_ERROR", "PRE_UNSAT")}
    violations, known_hits, harness_errors = [], {}, []
    replays = 0
    funcs = set()
    for c in cases:
        r = results[c["id"]]
        counts[r["status"]] = counts.get(r["status"], 0) + 1
        funcs.update(r.get("functions", []))
        if r["status"] == "REFUTED":
            if r.get("args") is None:
                harness_errors.append((c["id"], "refuted but no counterexample arguments captured: " + r.get("detail", "")[:300]))
                continue
            path = write_replay(prop, c, r)
            info, out = run_replay(path)
            replays += 1
            r["replay"] = info
            if not info.get("reproduced"):
                harness_errors.append((c["id"], f"counterexample does not reproduce concretely ({path}): {r.get('detail', '')[:300]}"))
                continue
            e = match_known(ctx.kf, prop, c, info)
            if e is not None:
                known_hits.setdefault(e["id"], (e, []))[1].append(c["id"])
                r["known_finding"] = e["id"]
            else:
                violations.append((c["id"], path, info, r.get("detail", "")))
        elif r["status"] in ("VACUOUS", "HARNESS_ERROR", "PRE_UNSAT"):
            harness_errors.append((c["id"], r.get("detail", "")[:600]))

    for fid, (e, cids) in sorted(known_hits.items()):
        print(f"KNOWN-FINDING: property={prop} {e['id']}: {e['what']} (cases: {', '.join(sorted(cids)[:4])}{' ...' if len(cids) > 4 else ''})")
    # an open finding that no longer reproduces is reported (not an error)
    for e in ctx.kf.get("open", []):
        if e["property"] == prop and e["id"] not in known_hits and not only:
            wanted = [c for c in cases if c.get("known") == e["id"]]
            if wanted:
                print(f"NOTE: open known finding {e['id']} was not reproduced by this run "
                      f"(statuses: {sorted(set(results[c['id']]['status'] for c in wanted))})")
    for cid, path, info, detail in violations:
        what = f"{info.get('exc')} in {info.get('frame')}" if info.get("kind") == "exception" else "oracle/implementation mismatch"
        print(f"VIOLATION property={prop} replay={path}  # case {cid}: {what}")
    for cid, why in harness_errors:
        print(f"HARNESS-ERROR property={prop} case={cid}: {why}")

    wall = time.time() - t0
    n_wit = sum(1 for r in results.values() if r.get("witness", {}).get("returned") is True)
    paths = sum(r.get("paths", 0) for r in results.values())
    queries = sum(r.get("queries", 0) for r in results.values())
    samples = []
    for c in cases[:: max(1, len(cases) // 6)][:8]:
        r = results[c["id"]]
        samples.append({
            "case": c["id"], "signature": ", ".join(f"{n}: {t}" for n, t in c["params"]),
            "pre": c["pre"], "harness_body": c["body"].strip().split("\n")[-6:], "status": r["status"],
            "paths": r.get("paths"), "z3_queries": r.get("queries"), "witness": r.get("witness_args"),
        })
    bounds = getattr(mod, "BOUNDS", {})
    if callable(bounds):
        bounds = bounds(ctx)
    ev = {
        "property_id": prop,
        "tier": tier,
        "seed": seed,
        "level": "model_checking",
        "coverage": {
            "states": max(paths, 0),
            "transitions": max(queries, 0),
            "traces_validated_against_impl": n_wit + replays,
            "samples": samples,
            "explanation": "states = symbolic execution paths completed by CrossHair over the real valida code; "
                           "transitions = z3 queries discharged; traces = concrete witness runs + counterexample replays",
            "cases": len(cases),
            "confirmed": counts["CONFIRMED"],
            "refuted_known_finding": sum(len(v[1]) for v in known_hits.values()),
            "refuted_violation": len(violations),
            "unknown": counts["UNKNOWN"],
            "killed": counts["KILLED"],
            "harness_errors": len(harness_errors),
            "unconfirmed_cases": sorted(c["id"] for c in cases if results[c["id"]]["status"] in ("UNKNOWN", "KILLED"))[:60],
            "solver_time_s": round(sum(r.get("z3_s", 0.0) for r in results.values()), 2),
            "cpu_time_s": round(sum(r.get("cpu_s", 0.0) for r in results.values()), 2),
            "functions_encoded": sorted(funcs),
            "bounds": bounds,
            "stubs": sorted({s for c in cases for s in c["stubs"]}),
            "known_findings_hit": sorted(known_hits),
            "oracle_validated_against_test_literals": n_lit,
            "exhaustive": False,
            "engine": "crosshair-tool 0.0.110 + z3-solver 5.1.0, harness regenerated from /repo working tree each run",
        },
        "assumptions": ASSUMPTIONS + list(getattr(mod, "ASSUMPTIONS", [])),
        "wall_s": round(wall, 2),
        "violations": len(violations),
    }
    if not only:
        os.makedirs(os.path.join(OUT, "evidence"), exist_ok=True)
        with open(os.path.join(OUT, "evidence", f"{prop}.json"), "w") as f:
            json.dump(ev, f, indent=1, default=repr)
    n_open = counts["UNKNOWN"] + counts["KILLED"]
    if n_open:
        print(f"NOTE: {n_open} of {len(cases)} cases were not discharged (UNKNOWN/KILLED: bounded exploration only, no violation found); "
              f"they are listed in the evidence under coverage.unconfirmed_cases")
    print(f"[{prop} {tier}] cases={len(cases)} confirmed={counts['CONFIRMED']} known={ev['coverage']['refuted_known_finding']} "
          f"violations={len(violations)} unknown={counts['UNKNOWN']} killed={counts['KILLED']} harness_errors={len(harness_errors)} "
          f"paths={paths} z3_queries={queries} z3_s={ev['coverage']['solver_time_s']} wall={wall:.1f}s")
    if violations:
        return EXIT_VIOLATION, results
    if harness_errors:
        return EXIT_HARNESS, results
    return EXIT_OK, results
