"""Run ONE case under CrossHair in this process and print a JSON result.

usage: python -m engine.worker <case.json>

A case is a dict:
  id, property, params [[name, type_src], ...], pre [expr_src, ...], body (source of the
  harness body; it must `return` a bool; any escaping exception is a violation),
  stubs [names], budget (CPU seconds for the CrossHair condition), setup (source run once
  at module level, concrete).

Steps (all in this process, the parent enforces a hard wall-clock SIGKILL):
  1. reachability twin: same body, final result replaced by False -> must be REFUTED.
     Its model is the case's witness.
  2. witness run: the body is re-run concretely (no CrossHair) on the witness; it must
     return True (else that concrete input is itself a violation candidate).
     valida functions entered are recorded (sys.setprofile) as `functions`.
  3. main analysis: CONFIRMED / REFUTED(+realised arguments) / UNKNOWN.
"""
import json
import linecache
import os
import sys
import time
import traceback
from collections import Counter

HERE = os.path.dirname(os.path.dirname(os.path.abspath(__file__)))
if HERE not in sys.path:
    sys.path.insert(0, HERE)


def harness_source(case):
    """Source text of the harness module for a case (also used by replay files)."""
    params = ", ".join(f"{n}: {t}" for n, t in case["params"])
    names = ", ".join(n for n, _ in case["params"])
    pres = "".join(f"    pre: {p}\n" for p in case.get("pre", []))
    body = "\n".join("    " + ln for ln in case["body"].strip("\n").split("\n"))
    setup = case.get("setup", "")
    src = (
        "from typing import *\n"
        "from engine.prelude import *\n"
        f"apply_stubs({case.get('stubs', [])!r})\n"
        f"{setup}\n"
        f"def _body({params}):\n{body}\n\n"
        f"def harness({params}) -> bool:\n"
        f'    """\n{pres}    post: _\n    """\n'
        f"    return _body({names})\n\n"
        f"def twin({params}) -> bool:\n"
        f'    """\n{pres}    post: _\n    """\n'
        f"    _body({names})\n"
        f"    return False\n"
    )
    return src


def load_harness(case):
    src = harness_source(case)
    fname = f"<harness {case['id']}>"
    linecache.cache[fname] = (len(src), None, src.splitlines(True), fname)
    ns = {"__name__": "verif_harness_" + case["id"].replace(".", "_").replace("-", "_")}
    # crosshair wants fn.__module__ importable for some lookups: register a module
    import types

    mod = types.ModuleType(ns["__name__"])
    mod.__file__ = fname
    sys.modules[ns["__name__"]] = mod
    exec(compile(src, fname, "exec"), mod.__dict__)
    return mod, src


class Acct:
    queries = 0
    z3_s = 0.0
    unknowns = 0


def install_accounting():
    import z3

    orig = z3.Solver.check

    def check(self, *a, **k):
        t = time.perf_counter()
        try:
            r = orig(self, *a, **k)
        finally:
            Acct.z3_s += time.perf_counter() - t
            Acct.queries += 1
        if str(r) == "unknown":
            Acct.unknowns += 1
        return r

    z3.Solver.check = check


CAPTURED = []


def install_capture():
    import crosshair.core as core
    from crosshair.tracers import NoTracing

    orig = core.make_counterexample_message

    def wrapped(conditions, args, return_val=None):
        from crosshair.statespace import context_statespace
        from crosshair.core import LazyCreationRepr

        try:
            reprer = context_statespace().extra(LazyCreationRepr)
            with NoTracing():
                real = reprer.deep_realize(args)
                CAPTURED.append(dict(real.arguments))
        except Exception:  # pragma: no cover - capture is best effort
            CAPTURED.append(None)
        return orig(conditions, args, return_val)

    core.make_counterexample_message = wrapped


def disable_short_circuit():
    """CrossHair may *skip* a call to any function that carries a contract - including its own
    patch of repr() (`post[]: True`) - and continue with an arbitrary value of the return type
    (explored in parallel with the real call). That is sound for contract reasoning but it makes
    every rendered text an unconstrained symbolic string that later comparisons fork on. The
    harnesses never rely on contracts of callees, so optional short-circuiting is switched off."""
    import crosshair.core as core

    orig = core.consider_shortcircuit

    def never_optional(fn, sig, bound, subconditions, allow_interpretation):
        if allow_interpretation:
            return None
        return orig(fn, sig, bound, subconditions, allow_interpretation)

    core.consider_shortcircuit = never_optional


def analyze(fn, budget):
    import crosshair.core_and_libs  # noqa: F401  registers the opcode patches and library models
    from crosshair.core import analyze_function, run_checkables
    from crosshair.options import AnalysisOptionSet, AnalysisKind
    from crosshair.statespace import MessageType

    stats = Counter()
    opts = AnalysisOptionSet(
        per_condition_timeout=float(budget),
        per_path_timeout=float(budget),
        report_all=True,
        stats=stats,
        analysis_kind=[AnalysisKind.PEP316],
        max_uninteresting_iterations=10**9,
    )
    del CAPTURED[:]
    q0, z0 = Acct.queries, Acct.z3_s
    t0 = time.process_time()
    msgs = run_checkables(analyze_function(fn, opts))
    cpu = time.process_time() - t0
    status, detail = "UNKNOWN", ""
    for m in msgs:
        if m.state in (MessageType.POST_FAIL, MessageType.EXEC_ERR, MessageType.POST_ERR):
            status, detail = "REFUTED", f"{m.state.name}: {m.message}"
            break
        if m.state == MessageType.CONFIRMED:
            status = "CONFIRMED"
        elif m.state == MessageType.PRE_UNSAT:
            status, detail = "PRE_UNSAT", m.message
        elif m.state in (MessageType.SYNTAX_ERR, MessageType.IMPORT_ERR):
            status, detail = "HARNESS_ERROR", f"{m.state.name}: {m.message}"
        elif m.state == MessageType.CANNOT_CONFIRM and status == "UNKNOWN":
            detail = m.message
    if not msgs:
        status, detail = "HARNESS_ERROR", "crosshair returned no message (no contract found?)"
    args = None
    if status == "REFUTED":
        args = CAPTURED[-1] if CAPTURED else None
    return {
        "status": status,
        "detail": detail[:2000],
        "paths": int(stats.get("num_paths", 0)),
        "queries": Acct.queries - q0,
        "z3_s": round(Acct.z3_s - z0, 3),
        "cpu_s": round(cpu, 3),
        "args": args,
    }


def concrete_run(mod, args):
    """Run the body on concrete args outside CrossHair; record valida functions entered."""
    funcs = set()

    def prof(frame, event, arg):
        if event == "call":
            fn = frame.f_code.co_filename
            if "/valida/" in fn and "/site-packages/" not in fn:
                funcs.add(
                    os.path.basename(fn)[:-3] + "." + getattr(frame.f_code, "co_qualname", frame.f_code.co_name)
                )

    sys.setprofile(prof)
    try:
        try:
            r = mod._body(**args)
            out = {"returned": r if isinstance(r, bool) else repr(r)}
        except Exception as e:  # noqa: BLE001 - any exception is a violation candidate
            out = {"raised": type(e).__name__, "msg": str(e)[:300], "frame": innermost_valida_frame(e)}
    finally:
        sys.setprofile(None)
    out["functions"] = sorted(funcs)
    return out


def innermost_valida_frame(exc):
    tb = traceback.extract_tb(exc.__traceback__)
    for fr in reversed(tb):
        if "/valida/" in fr.filename and "/site-packages/" not in fr.filename:
            return os.path.basename(fr.filename) + ":" + fr.name
    return tb[-1].name if tb else "?"


def jsonable(x):
    try:
        json.dumps(x)
        return x
    except (TypeError, ValueError):
        return {"__repr__": repr(x)}


def main():
    case = json.load(open(sys.argv[1]))
    t_start = time.time()
    res = {"id": case["id"], "status": "HARNESS_ERROR", "detail": ""}
    try:
        install_accounting()
        install_capture()
        disable_short_circuit()
        mod, src = load_harness(case)
        budget = float(case.get("budget", 45))
        # 1. reachability twin
        tw = analyze(mod.twin, min(budget, 30.0))
        res["twin"] = {k: tw[k] for k in ("status", "paths", "queries", "z3_s")}
        if tw["status"] != "REFUTED" or tw["args"] is None:
            res["status"] = "VACUOUS"
            res["detail"] = f"reachability twin not refuted: {tw['status']} {tw['detail'][:300]}"
        else:
            # 2. witness run (concrete)
            wit = concrete_run(mod, tw["args"])
            res["witness_args"] = {k: jsonable(v) for k, v in tw["args"].items()}
            res["witness"] = {k: v for k, v in wit.items() if k != "functions"}
            res["functions"] = wit["functions"]
            if wit.get("returned") is not True:
                # the witness itself violates the assertion concretely
                res.update(status="REFUTED", detail=f"witness run: {wit}", args=tw["args"],
                           paths=tw["paths"], queries=tw["queries"], z3_s=tw["z3_s"], cpu_s=0.0)
            else:
                # 3. the real question
                main_r = analyze(mod.harness, budget)
                res.update(main_r)
                res["paths"] += tw["paths"]
                res["queries"] += tw["queries"]
                res["z3_s"] = round(res["z3_s"] + tw["z3_s"], 3)
        if res.get("args") is not None:
            res["args_repr"] = repr(res["args"])
            res["args"] = {k: jsonable(v) for k, v in res["args"].items()}
        res["z3_unknown"] = Acct.unknowns
    except BaseException as e:  # noqa: BLE001 - report everything to the parent
        res["status"] = "HARNESS_ERROR"
        res["detail"] = "worker exception: " + "".join(traceback.format_exception(e))[-3000:]
    res["wall_s"] = round(time.time() - t_start, 2)
    sys.stdout.write("\n@@RESULT@@" + json.dumps(res) + "\n")
    sys.stdout.flush()


if __name__ == "__main__":
    main()
