"""Names available to every harness body (and to replay scripts).

Everything here is plain Python that CrossHair can execute symbolically. The real
valida modules are imported from /repo's current working tree (via the venv's .pth).
"""
import copy
import enum
import os
import sys
import pathlib

import valida
import valida.callables
import valida.casting
import valida.conditions
import valida.data
import valida.datapath
import valida.rules
import valida.schema
import valida.errors
from valida import Value, Key, Index, Data, DataPath, Rule, Schema
from valida.conditions import (
    ConditionLike,
    Condition,
    NullCondition,
    ConditionAnd,
    ConditionOr,
    ConditionXor,
    ConditionBinaryOp,
    ValueLength,
    ValueDataType,
    KeyLength,
    KeyDataType,
)
from valida.datapath import MapValue, ListValue, MapOrListValue, ContainerValue
from valida.errors import (
    MalformedConditionLikeSpec,
    MalformedDataPathSpec,
    MalformedRuleSpec,
    MalformedContainerItemSpec,
)

from engine.oracle import *  # noqa: F401,F403  reference models
from engine.terms import *  # noqa: F401,F403  term -> valida object builders

REPLAY = bool(os.environ.get("VERIF_REPLAY"))

# --------------------------------------------------------------------------- stubs
_STUBS_APPLIED = set()


def apply_stubs(names):
    """Install harness-side stubs (each one is part of the claim; listed in evidence)."""
    for n in names:
        if n in _STUBS_APPLIED:
            continue
        _STUBS_APPLIED.add(n)
        if n == "cond_repr":
            # text of rule-failure reasons is not the subject; rendering a symbolic
            # argument with repr() would realise it (valida/data.py:264-265)
            valida.conditions.Condition.__repr__ = lambda self: "<condition>"
            valida.conditions.NullCondition.__repr__ = lambda self: "<null>"
            valida.conditions.ConditionBinaryOp.__repr__ = lambda self: "<combination>"
        elif n == "part_repr":
            valida.datapath.ContainerValue.__repr__ = lambda self: "<part>"
            valida.datapath.MapOrListValue.__repr__ = lambda self: "<part>"
            valida.datapath.DataPath.__repr__ = lambda self: "<path>"
        elif n == "sym_repr":
            # Engine-side, no valida code is replaced: the *text* CrossHair renders for a symbolic
            # atom is a constant. CrossHair's own SymbolicInt.__repr__ forks once per sign and digit
            # count (~40 ways) and str/float repr realise the atom; valida renders data values into
            # exception texts that it then discards (Data.__init__, data.py:20) and into failure
            # reasons whose wording no property constrains.
            from crosshair.libimpl import builtinslib as B

            B.SymbolicInt.__repr__ = lambda self: "<int>"
            B.SymbolicFloat.__repr__ = lambda self: "<float>"
            B.AnySymbolicStr.__repr__ = lambda self: "'<str>'"
            B.LazyIntSymbolicStr.__repr__ = lambda self: "'<str>'"
            B.SymbolicNumberAble.__format__ = lambda self, fmt: "<num>"
            # f"{x}" without a conversion goes through CrossHair's format() patch, which deep-realises
            # x first (an int is then enumerated value by value): render numbers as a constant and
            # containers through their (patched) repr instead.
            from crosshair import opcode_intercept as OI

            if not getattr(OI.FormatStashingValue, "_verif_patched", False):
                orig_format = OI.FormatStashingValue.__format__

                def stash_format(self, fmt):
                    from crosshair.tracers import NoTracing

                    v = self.value
                    if fmt == "":
                        with NoTracing():  # isinstance/type are themselves modelled under tracing
                            is_num = isinstance(v, (B.SymbolicInt, B.SymbolicFloat))
                            is_container = type(v) in (list, dict, tuple)
                            # plain objects: format(obj, "") is str(obj); CrossHair's format() would
                            # deep-realise the object (and every symbolic atom inside it) first
                            is_plain_obj = (not isinstance(v, B.CrossHairValue)) and getattr(type(v), "__format__", None) is object.__format__
                        if is_num:
                            self.formatted = "<num>"
                            return ""
                        if is_container:
                            self.formatted = repr(v)
                            return ""
                        if is_plain_obj:
                            self.formatted = str(v)
                            return ""
                    return orig_format(self, fmt)

                OI.FormatStashingValue.__format__ = stash_format
                OI.FormatStashingValue._verif_patched = True
        else:
            raise ValueError(f"unknown stub {n!r}")


# --------------------------------------------------------------------------- helpers
def I64(*xs):
    for x in xs:
        if not (-(2**63) <= x < 2**63):
            return False
    return True


_ATOM_TYPES = (int, bool, str, float, type(None))


def tx(x):
    """Type-exact structural snapshot (1, True and 1.0 are all different)."""
    t = type(x)
    if t is dict:
        return ("dict", tuple((tx(k), tx(v)) for k, v in x.items()))
    if t is list:
        return ("list", tuple(tx(v) for v in x))
    if t is tuple:
        return ("tuple", tuple(tx(v) for v in x))
    if x is None:
        return ("None",)
    if t is bool:
        return ("bool", x)
    if t is int:
        return ("int", x)
    if t is float:
        return ("float", x)
    if t is str:
        return ("str", x)
    if isinstance(x, type):
        return ("type", x.__name__)
    if isinstance(x, dict):      # a mapping subclass (OrderedDict, defaultdict, ...): by content, with its type
        return ("dict:" + t.__name__, tuple((tx(k), tx(v)) for k, v in x.items()))
    if isinstance(x, list):      # a list subclass
        return ("list:" + t.__name__, tuple(tx(v) for v in x))
    return ("obj", t.__name__, x)


def same(label, got, exp):
    """got == exp; on replay, say what differed."""
    ok = got == exp
    if REPLAY and not ok:
        print(f"  MISMATCH {label}: implementation={got!r} expected={exp!r}")
    return ok


def note(label, ok):
    if REPLAY and not ok:
        print(f"  FAILED {label}")
    return ok


_VALIDA_CLASSES = (
    valida.conditions.ConditionLike,
    valida.conditions.PreparedConditionCallable,
    valida.datapath.DataPath,
    valida.datapath.ContainerValue,
    valida.rules.Rule,
    valida.schema.Schema,
    valida.data.Data,
)


def idsnap(*roots):
    """Identity-graph snapshot of every valida object reachable from the roots:
    (id, attribute name, id-or-structure of the attribute value), recursively through
    tuples / lists / dicts. Two snapshots are equal iff no attribute of any pre-existing
    object was rebound and no container attribute changed its membership."""
    out = []
    seen = set()

    def val(v):
        t = type(v)
        # plain values first: never call hasattr()/callable() on a symbolic atom
        if v is None or t is int or t is bool or t is str or t is float:
            return ("v", tx(v))
        if t is tuple or t is list:
            return (t.__name__, tuple(val(i) for i in v))
        if t is dict:
            return ("dict", tuple((val(k), val(i)) for k, i in v.items()))
        if isinstance(v, _VALIDA_CLASSES):
            walk(v)
            return ("@", id(v))
        if isinstance(v, type):
            return ("type", v.__name__)
        if isinstance(v, enum.Enum):
            return ("enum", v.name)
        if callable(v):
            return ("fn", getattr(v, "__name__", "?"))
        return ("other", t.__name__, id(v))

    def walk(o):
        if id(o) in seen:
            return
        seen.add(id(o))
        for k in sorted(vars(o)):
            out.append((id(o), k, val(vars(o)[k])))

    for r in roots:
        val(r)
    return out


def follow(doc, path):
    """Index the document along a concrete path (tuple of keys / indices)."""
    node = doc
    for p in path:
        node = node[p]
    return node


def BU(L, *atoms):
    """Bounds for Union/int/str atoms: strings at most L long, ints in the 64-bit range."""
    for u in atoms:
        if isinstance(u, str):
            if len(u) > L:
                return False
        elif isinstance(u, bool) or u is None:
            pass
        elif isinstance(u, int):
            if not (-(2**63) <= u < 2**63):
                return False
    return True


def same_objs(label, got, exp):
    """Same length and element-wise identical objects (not merely equal ones)."""
    ok = len(got) == len(exp)
    if ok:
        for a, b in zip(got, exp):
            if a is not b:
                ok = False
    if REPLAY and not ok:
        print(f"  MISMATCH (identity) {label}: implementation={got!r} expected={exp!r}")
    return ok


def docids(x):
    """Identity structure of a document: ids of every nested container (aliasing / rebinding shows up)."""
    t = type(x)
    if t is dict:
        return ("dict", id(x), tuple((tx(k), docids(v)) for k, v in x.items()))
    if t is list:
        return ("list", id(x), tuple(docids(v) for v in x))
    if t in _ATOM_TYPES:
        return None
    if isinstance(x, dict):
        return ("dict:" + t.__name__, id(x), tuple((tx(k), docids(v)) for k, v in x.items()))
    if isinstance(x, list):
        return ("list:" + t.__name__, id(x), tuple(docids(v) for v in x))
    return None


def summarize_validation(v):
    return (v.is_valid, v.num_failures, v.num_rules_tested,
            [[tx(tuple(f.path)) for f in rt.failures] for rt in v.rule_tests], tx(v.cast_data))


def summarize_test(t):
    return (t.is_valid, t.tested, t.num_failures, [tx(tuple(f.path)) for f in t.failures], tx(t.data.get_original()))


def concrete_run():
    """True outside CrossHair (witness runs and replays): where routes that cannot be executed
    symbolically (YAML text, real json.dumps) are exercised on the concrete atoms."""
    try:
        from crosshair.tracers import is_tracing

        return not is_tracing()
    except Exception:
        return True


def yaml_text(obj):
    import io
    from ruamel.yaml import YAML

    buf = io.StringIO()
    YAML(typ="safe").dump(obj, buf)
    return buf.getvalue()


def yaml_safe_atoms(*atoms):
    """atoms survive YAML text unchanged (printable ASCII strings only)"""
    for a in atoms:
        if isinstance(a, str) and not all(32 <= ord(ch) < 127 for ch in a):
            return False
    return True


def outcome(thunk):
    """('ok', type-exact result) or ('raised', exception type name): to compare two objects'
    behaviour including the error they raise (e.g. single() with several matches)."""
    try:
        return ("ok", tx(thunk()))
    except ValueError as e:
        return ("raised", "ValueError")
    except TypeError as e:
        return ("raised", "TypeError")
    except AttributeError as e:
        return ("raised", "AttributeError")  # e.g. map_keys() of a non-mapping node: undefined for both alike


def is_json_pure(x):
    """Structural purity: str keys; str/int/float/bool/None/list/dict only (evaluated on the
    symbolic structure; real json.dumps runs on concrete witnesses only)."""
    if x is None or isinstance(x, (bool, int, float, str)):
        return True
    if type(x) is list:
        return all(is_json_pure(i) for i in x)
    if type(x) is dict:
        return all(type(k) is str and is_json_pure(v) for k, v in x.items())
    return False


def json_text_roundtrip(js):
    import json

    return json.loads(json.dumps(js))


def is_json_compatible(x):
    """json.dumps-able (tuples allowed: they become arrays); weaker than is_json_pure."""
    if x is None or isinstance(x, (bool, int, float, str)):
        return True
    if type(x) in (list, tuple):
        return all(is_json_compatible(i) for i in x)
    if type(x) is dict:
        return all(type(k) is str and is_json_compatible(v) for k, v in x.items())
    return False


def container_ids(x, acc=None):
    acc = set() if acc is None else acc
    t = type(x)
    if t is dict or (t not in _ATOM_TYPES and t is not list and isinstance(x, dict)):
        acc.add(id(x))
        for v in x.values():
            container_ids(v, acc)
    elif t is list or (t not in _ATOM_TYPES and isinstance(x, list)):
        acc.add(id(x))
        for v in x:
            container_ids(v, acc)
    return acc


def disjoint_containers(a, b):
    """no list / dict object of a is a list / dict object of b (a private deep copy)"""
    return len(container_ids(a) & container_ids(b)) == 0
