import argparse
import os
import subprocess
import sys

ROOT = os.path.dirname(os.path.dirname(os.path.abspath(__file__)))
sys.path.insert(0, ROOT)


def main():
    if len(sys.argv) > 1 and sys.argv[1] == "replay":
        sys.exit(subprocess.call([sys.executable, sys.argv[2]], cwd=ROOT))
    if len(sys.argv) > 1 and sys.argv[1] == "selftest-oracle":
        from engine import oracle_selftest

        sys.exit(oracle_selftest.main())
    ap = argparse.ArgumentParser()
    ap.add_argument("prop")
    ap.add_argument("--tier", default=os.environ.get("VERIF_TIER", "quick"), choices=["quick", "thorough"])
    ap.add_argument("--only", nargs="*")
    ap.add_argument("--jobs", type=int)
    ap.add_argument("-v", action="store_true")
    ap.add_argument("--list", action="store_true")
    a = ap.parse_args()
    seed = int(os.environ.get("VERIF_SEED", "0") or 0)
    from engine import runner

    if a.list:
        import importlib

        for c in importlib.import_module(f"props.{a.prop}").cases(runner.Ctx(a.tier, seed)):
            print(c["id"])
        return
    rc, _ = runner.run_property(a.prop, a.tier, seed, only=a.only, jobs=a.jobs, verbose=a.v)
    sys.exit(rc)


if __name__ == "__main__":
    main()
