"""Reference semantics for the properties (DESIGN.md 2.4 and Appendix A).

Written by explicit type case analysis; there is deliberately no try/except in this
file, so that an exception-mapping change in valida cannot be mirrored here.

Term language (plain tuples; atoms may be symbolic values):
  condition:  ("null",)
              ("leaf", kind, pre, name, args_tuple, kwargs_pairs_tuple)
                    kind in "value" | "key" | "index";  pre in None | "length" | "dtype"
              ("and"|"or"|"xor", t1, t2)
  part:       ("prim", p) | ("map", cond) | ("list", cond) | ("mol", list_cond, map_cond, cond)
  path:       tuple of parts
"""

UNDEF = "UNDEF"


def is_num(x):
    return isinstance(x, (int, float))  # bool is an int


def is_hashable_json(x):
    # JSON-like values: everything except list / dict is hashable
    return not isinstance(x, (list, dict))


def all_types(classes):
    for c in classes:
        if not isinstance(c, type):
            return False
    return True


# ----------------------------------------------------------------- ordering
def ref_order(op, a, b):
    """Python ordering where it is defined for JSON-like operands, else UNDEF."""
    if is_num(a) and is_num(b):
        return _cmp(op, a, b)
    if isinstance(a, str) and isinstance(b, str):
        return _cmp(op, a, b)
    if isinstance(a, list) and isinstance(b, list):
        n = min(len(a), len(b))
        for i in range(n):
            if a[i] is b[i] or a[i] == b[i]:
                continue
            return ref_order(op, a[i], b[i])
        return _cmp(op, len(a), len(b))
    return UNDEF


def _cmp(op, a, b):
    if op == "lt":
        return a < b
    if op == "le":
        return a <= b
    if op == "gt":
        return a > b
    return a >= b


# ----------------------------------------------------------------- membership
def ref_in(x, value):
    if isinstance(value, str):
        if isinstance(x, str):
            return x in value
        return UNDEF
    if isinstance(value, (list, tuple)):
        for e in value:
            if e is x or e == x:
                return True
        return False
    if isinstance(value, dict):
        if not is_hashable_json(x):
            return UNDEF
        for k in value:
            if k == x:
                return True
        return False
    return UNDEF


def ref_in_range(x, lower, upper):
    if not (isinstance(lower, int) and isinstance(upper, int)):
        return UNDEF
    if isinstance(x, int):
        return lower <= x < upper
    if isinstance(x, float):
        return x == int(x) and lower <= x < upper if _finite(x) else False
    return False


def _finite(x):
    return x == x and x not in (float("inf"), float("-inf"))


# ----------------------------------------------------------------- key helpers
def _count_keys(x, keys):
    n = 0
    for k in keys:
        if not is_hashable_json(k):
            return UNDEF
        if _has_key(x, k):
            n += 1
    return n


def _has_key(x, k):
    for kk in x:
        if kk == k:
            return True
    return False


def _iter_keys(keys):
    """What iterating the `keys` argument yields, or UNDEF if it is not iterable."""
    if isinstance(keys, (list, tuple)):
        return list(keys)
    if isinstance(keys, str):
        return [c for c in keys]
    if isinstance(keys, dict):
        return list(keys)
    return UNDEF


# ----------------------------------------------------------------- the callables
def ref_callable(name, x, args=(), kwargs=()):
    """Documented meaning of callable `name` for datum x: True | False | UNDEF.
    args: positional arguments in signature order; kwargs: tuple of (name, value)."""
    kw = dict(kwargs)

    def arg(i, nm):
        if nm in kw:
            return kw[nm]
        return args[i]

    if name == "equal_to":
        return x == arg(0, "value")
    if name == "not_equal_to":
        return x != arg(0, "value")
    if name == "less_than":
        return ref_order("lt", x, arg(0, "value"))
    if name == "greater_than":
        return ref_order("gt", x, arg(0, "value"))
    if name == "less_than_or_equal_to":
        return ref_order("le", x, arg(0, "value"))
    if name == "greater_than_or_equal_to":
        return ref_order("ge", x, arg(0, "value"))
    if name == "in_":
        return ref_in(x, arg(0, "value"))
    if name == "not_in":
        r = ref_in(x, arg(0, "value"))
        return UNDEF if r is UNDEF else (not r)
    if name == "in_range":
        return ref_in_range(x, arg(0, "lower"), arg(1, "upper"))
    if name == "not_in_range":
        r = ref_in_range(x, arg(0, "lower"), arg(1, "upper"))
        return UNDEF if r is UNDEF else (not r)
    if name == "equal_to_approx":
        v = arg(0, "value")
        tol = arg(1, "tolerance") if (len(args) > 1 or "tolerance" in kw) else 1e-8  # documented default
        if is_num(x) and is_num(v) and is_num(tol):
            return abs(x - v) < tol
        return UNDEF
    if name == "factor_of":
        v = arg(0, "value")
        if is_num(v) and is_num(x):
            if x == 0:
                return UNDEF
            return v % x == 0
        return UNDEF  # incl. str `value` (string formatting never equals 0)
    if name == "has_factor":
        v = arg(0, "value")
        if is_num(x) and is_num(v):
            if v == 0:
                return UNDEF
            return x % v == 0
        return UNDEF  # incl. str datum (string formatting never equals 0)
    if name == "truthy":
        return not not x
    if name == "falsy":
        return not x
    if name == "null":
        return True
    if name == "is_instance":
        if not all_types(args):
            return UNDEF
        return isinstance(x, tuple(args))

    # ---- mapping callables: defined for dict data only
    if name == "items_contain":
        if len(kw) == 0:
            return True
        if not isinstance(x, dict):
            return UNDEF
        for k, v in kwargs:
            if not _has_key(x, k):
                return False
            if x[k] != v:
                return False
        return True
    if not isinstance(x, dict):
        return UNDEF
    if name == "keys_contain":
        k = arg(0, "key")
        if not is_hashable_json(k):
            return UNDEF
        return _has_key(x, k)
    if name == "keys_contain_any_of":
        for k in args:
            if not is_hashable_json(k):
                return UNDEF
            if _has_key(x, k):
                return True
        return False
    if name == "keys_contain_all_of":
        for k in args:
            if not is_hashable_json(k):
                return UNDEF
            if not _has_key(x, k):
                return False
        return True
    if name in ("keys_contain_N_of", "keys_contain_at_least_N_of", "keys_contain_at_most_N_of"):
        N, keys = arg(0, "N"), _iter_keys(arg(1, "keys"))
        return _ref_n_of(name, x, N, keys)
    if name == "keys_contain_one_of":
        return _ref_n_of("keys_contain_N_of", x, 1, list(args))
    if name == "keys_contain_at_least_one_of":
        return _ref_n_of("keys_contain_at_least_N_of", x, 1, _iter_keys(arg(0, "keys")))
    if name == "keys_contain_at_most_one_of":
        return _ref_n_of("keys_contain_at_most_N_of", x, 1, _iter_keys(arg(0, "keys")))
    if name in ("keys_equal_to", "allowed_keys", "required_keys", "forbidden_keys"):
        for k in args:
            if not is_hashable_json(k):
                return UNDEF
        x_in_keys = True  # every key of x is among args
        for kk in x:
            if not _in_list(kk, args):
                x_in_keys = False
        keys_in_x = True  # every arg is a key of x
        any_common = False
        for k in args:
            if _has_key(x, k):
                any_common = True
            else:
                keys_in_x = False
        if name == "keys_equal_to":
            return x_in_keys and keys_in_x
        if name == "allowed_keys":
            return x_in_keys
        if name == "required_keys":
            return keys_in_x
        return not any_common
    if name == "keys_is_instance":
        if len(x) > 0 and not all_types(args):
            return UNDEF
        for kk in x:
            if not isinstance(kk, tuple(args)):
                return False
        return True
    raise AssertionError(f"oracle has no meaning for callable {name!r}")


def _in_list(v, lst):
    for e in lst:
        if e == v:
            return True
    return False


def _ref_n_of(name, x, N, keys):
    if keys is UNDEF:
        return UNDEF
    n = _count_keys(x, keys)
    if n is UNDEF:
        return UNDEF
    if name == "keys_contain_N_of":
        return n == N
    if not is_num(N):
        return UNDEF
    if name == "keys_contain_at_least_N_of":
        return n >= N
    return n <= N


# ----------------------------------------------------------------- leaves and trees
def ref_items(doc):
    """(key-or-index, value) pairs of a list / mapping document in document order."""
    if isinstance(doc, dict):
        return [(k, v) for k, v in doc.items()]
    return [(i, doc[i]) for i in range(len(doc))]


def ref_pre(pre, x):
    if pre is None:
        return x
    if pre == "length":
        if isinstance(x, (str, list, dict)):
            return len(x)
        return UNDEF
    if pre == "dtype":
        return type(x)
    raise AssertionError(pre)


def ref_leaf_datum(pre, name, args, kwargs, datum):
    p = ref_pre(pre, datum)
    if p is UNDEF:
        return False
    r = ref_callable(name, p, args, kwargs)
    if r is UNDEF:
        return False
    return r


def is_null_term(term):
    if term[0] == "null":
        return True
    if term[0] in ("and", "or", "xor"):
        return is_null_term(term[1]) and is_null_term(term[2])
    return False


def ref_tree(term, doc):
    """One bool per item of doc, or None when the tree refuses this container kind
    (key-kind leaf on a list, index-kind leaf on a mapping)."""
    tag = term[0]
    if tag == "null":
        return [True for _ in ref_items(doc)]
    if tag == "leaf":
        _, kind, pre, name, args, kwargs = term
        is_map = isinstance(doc, dict)
        if kind == "key" and not is_map:
            return None
        if kind == "index" and is_map:
            return None
        out = []
        for k, v in ref_items(doc):
            datum = v if kind == "value" else k
            out.append(ref_leaf_datum(pre, name, args, kwargs, datum))
        return out
    # null is the identity of every operator ("combining with the null condition on either
    # side gives the other operand's behaviour"), not an all-True Boolean operand
    if is_null_term(term[1]):
        return ref_tree(term[2], doc)
    if is_null_term(term[2]):
        return ref_tree(term[1], doc)
    a = ref_tree(term[1], doc)
    b = ref_tree(term[2], doc)
    if a is None or b is None:
        return None
    if tag == "and":
        return [i and j for i, j in zip(a, b)]
    if tag == "or":
        return [i or j for i, j in zip(a, b)]
    if tag == "xor":
        return [i != j for i, j in zip(a, b)]
    raise AssertionError(tag)


# ----------------------------------------------------------------- path walking
def filterable(node):
    return isinstance(node, (list, dict)) and len(node) > 0


def ref_part(part, node):
    """Children (key-or-index, value) of node matched by part, in document order;
    [] when the part does not apply to the node."""
    if not filterable(node):
        return []
    tag = part[0]
    is_map = isinstance(node, dict)
    if tag == "prim":
        p = part[1]
        if isinstance(p, (str, float)):
            if not is_map:
                return []
            return [(k, v) for k, v in ref_items(node) if k == p]
        # int / bool: key of a mapping or index of a list
        return [(k, v) for k, v in ref_items(node) if k == p]
    if tag == "map":
        if not is_map:
            return []
        res = ref_tree(part[1], node)
    elif tag == "list":
        if is_map:
            return []
        res = ref_tree(part[1], node)
    elif tag == "mol":
        first = part[2] if is_map else part[1]
        a = ref_tree(first, node)
        b = ref_tree(part[3], node)
        res = None if (a is None or b is None) else [i and j for i, j in zip(a, b)]
    else:
        raise AssertionError(tag)
    if res is None:
        return []
    items = ref_items(node)
    return [items[i] for i in range(len(items)) if res[i]]


def ref_walk(path, doc):
    """[(value, concrete_path_tuple)] selected by the path, in document order."""
    frontier = [(doc, ())]
    for part in path:
        new = []
        for node, cp in frontier:
            for k, v in ref_part(part, node):
                new.append((v, cp + (k,)))
        frontier = new
    return frontier


def path_is_concrete(path):
    for p in path:
        if p[0] != "prim":
            return False
    return True


def datum_mod_defined(mod, v):
    if mod is None or mod == "dtype":
        return True
    if mod == "length":
        # every sized value a YAML / Python document can hold: `!!set` and `!!binary` load as set / bytes, API users pass tuples
        return isinstance(v, (str, list, dict, tuple, bytes, set, frozenset))
    return isinstance(v, dict)


def ref_datum_mod(mod, v):
    if mod is None:
        return v
    if mod == "dtype":
        return type(v)
    if mod == "length":
        return len(v)
    if mod == "map_keys":
        return list(v.keys())
    if mod == "map_values":
        return list(v.values())
    raise AssertionError(mod)


# ----------------------------------------------------------------- rules and schemas
def ref_rule(path, cond, doc):
    """(is_valid, tested, [(value, path)] failures) for a rule with a value-kind tree."""
    sel = ref_walk(path, doc)
    if not sel:
        return (True, False, [])
    res = ref_tree(cond, [v for v, _ in sel])
    fails = [sel[i] for i in range(len(sel)) if not res[i]]
    return (len(fails) == 0, True, fails)


# ----------------------------------------------------------------- casts
# Expected outcome of the two library casts on the concrete pool strings used by the checks
# (an independent table, not a call of the functions under test).
CAST_TABLE = {
    "bool": {"true": True, "True": True, "TRUE": True, "false": False, "False": False, "fAlSe": False},
    "int": {"3": 3, "-2": -2, " 7 ": 7, "0": 0, "1": 1, "+5": 5, "007": 7, "3\n": 3},
}


def ref_set(doc, cp, value):
    node = doc
    for k in cp[:-1]:
        node = node[k]
    node[cp[-1]] = value


def ref_copy(x):
    if isinstance(x, dict):
        return {k: ref_copy(v) for k, v in x.items()}
    if isinstance(x, list):
        return [ref_copy(v) for v in x]
    return x


def ref_cast(rules, doc):
    """rules: [(path_term, cast_kind or None)] in schema order. The document with every selected
    node whose type has a declared cast replaced by the cast value when the cast succeeds."""
    out = ref_copy(doc)
    for path, kind in rules:
        if kind is None:
            continue
        for v, cp in ref_walk(path, doc):
            if isinstance(v, str) and len(cp) > 0:
                table = CAST_TABLE[kind]
                if v in table:
                    ref_set(out, cp, table[v])
    return out


def ref_get(path, doc, mod=None, multi=None):
    """What `path` (+ datum / multiplicity modifier) selects in doc, as data paths present it without
    concrete paths: a concrete path gives the node or None, a non-concrete one a list."""
    sel = [v for v, _ in ref_walk(path, doc)]
    if not sel:
        return None if path_is_concrete(path) else []
    vals = [ref_datum_mod(mod, v) for v in sel]
    if path_is_concrete(path):
        return vals[0]
    if multi == "first":
        return vals[0]
    if multi == "last":
        return vals[-1]
    return vals
