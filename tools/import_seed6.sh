#!/bin/sh
# tools/import_seed6.sh Cxx : round-4 seeds from /tmp/w6_Cxx -> /verif/seeded/R6-Cxx-A, -B
P=$1
for X in A B; do
  W=/tmp/w6_$P
  if [ -f $W/seed_$X.diff ] && [ -f $W/seed_${X}_demo.py ]; then
    D=/verif/seeded/R6-$P-$X
    mkdir -p $D
    cp $W/seed_$X.diff $D/patch.diff
    cp $W/seed_${X}_demo.py $D/demo.py
    python3 - $W/seed_$X.json $D/meta.json $P <<'PY'
import json,sys
try: m=json.load(open(sys.argv[1]))
except Exception: m={}
m["property"]=sys.argv[3]
m["round"]=6
m["origin"]="written by an independent sub-agent given only the property text and a scratch worktree (round 6 (round-5 brief plus: reviewer works on small documents and already tries bool/int/float, None and empty atoms; asked for feature interactions, two-site, deeper/larger boundary and error-path changes): asked for history / two-site / boundary / error-path changes that evade a single-call differential test)"
json.dump(m,open(sys.argv[2],"w"),indent=1)
PY
    echo imported $D
  fi
done
