#!/bin/sh
# tools/import_seed6.sh Cxx : round-7 seeds from /tmp/w7_Cxx -> /verif/seeded/R7-Cxx-A, -B
P=$1
for X in A B; do
  W=/tmp/w7_$P
  if [ -f $W/seed_$X.diff ] && [ -f $W/seed_${X}_demo.py ]; then
    D=/verif/seeded/R7-$P-$X
    mkdir -p $D
    cp $W/seed_$X.diff $D/patch.diff
    cp $W/seed_${X}_demo.py $D/demo.py
    python3 - $W/seed_$X.json $D/meta.json $P <<'PY'
import json,sys
try: m=json.load(open(sys.argv[1]))
except Exception: m={}
m["property"]=sys.argv[3]
m["round"]=7
m["origin"]="written by an independent sub-agent given only the property text and a scratch worktree (round 7 (brief: seeded/ROUND7_TASK.md - told which mechanisms earlier rounds used and asked for different ones: Python-semantics traps, unusual legal inputs, feature interactions, error paths)"
json.dump(m,open(sys.argv[2],"w"),indent=1)
PY
    echo imported $D
  fi
done
