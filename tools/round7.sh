#!/bin/sh
# tools/round7.sh Cxx : import the round-7 seeds of Cxx, confirm them, run the property's quick check against each (scratch mode)
P=$1
cd /verif
tools/import_seed7.sh $P
for X in A B; do
  D=seeded/R7-$P-$X
  [ -d $D ] || continue
  python3 tools/seedtest.py verify $D > $D/verify.json 2>&1
  grep -q '"ok": true' $D/verify.json && echo "VERIFIED $D" || echo "NOT-VERIFIED $D"
  VERIF_BUDGET=${VERIF_BUDGET:-30} python3 tools/seedtest.py srun $D 2>&1 | tail -1
done
