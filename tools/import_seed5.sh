#!/bin/sh
# tools/import_seed4.sh Cxx : round-4 seeds from /tmp/w5_Cxx -> /verif/seeded/R5-Cxx-A, -B
P=$1
for X in A B; do
  W=/tmp/w5_$P
  if [ -f $W/seed_$X.diff ] && [ -f $W/seed_${X}_demo.py ]; then
    D=/verif/seeded/R5-$P-$X
    mkdir -p $D
    cp $W/seed_$X.diff $D/patch.diff
    cp $W/seed_${X}_demo.py $D/demo.py
    python3 - $W/seed_$X.json $D/meta.json $P <<'PY'
import json,sys
try: m=json.load(open(sys.argv[1]))
except Exception: m={}
m["property"]=sys.argv[3]
m["round"]=5
m["origin"]="written by an independent sub-agent given only the property text and a scratch worktree (round 5 (same brief as round 4: round-2 brief plus: the reviewer already re-uses objects across calls, re-validates after in-place edits and re-reads earlier results): asked for history / two-site / boundary / error-path changes that evade a single-call differential test)"
json.dump(m,open(sys.argv[2],"w"),indent=1)
PY
    echo imported $D
  fi
done
