#!/bin/sh
# tools/import_seed.sh Cxx : copy seed_A/B files from /tmp/wt_Cxx into /verif/seeded/Cxx-A, Cxx-B
P=$1
for X in A B; do
  W=/tmp/wt_$P
  if [ -f $W/seed_$X.diff ] && [ -f $W/seed_${X}_demo.py ]; then
    D=/verif/seeded/$P-$X
    mkdir -p $D
    cp $W/seed_$X.diff $D/patch.diff
    cp $W/seed_${X}_demo.py $D/demo.py
    python3 - $W/seed_$X.json $D/meta.json $P <<'PY'
import json,sys
try: m=json.load(open(sys.argv[1]))
except Exception: m={}
m["property"]=sys.argv[3]
m["origin"]="written by an independent sub-agent given only the property text and a scratch worktree"
json.dump(m,open(sys.argv[2],"w"),indent=1)
PY
    echo imported $D
  fi
done
