#!/usr/bin/env python3
"""Confirm a seeded change and run checks against it.

  tools/seedtest.py verify <seed_dir>            # in a scratch worktree: tests pass with the patch, demo fails with / passes without
  tools/seedtest.py run <seed_dir> [Cxx ...]     # apply to /repo, run the quick checks (default: the seed's property), revert
  tools/seedtest.py srun <seed_dir> [Cxx ...]    # the same from a scratch worktree on PYTHONPATH (/repo untouched, parallel-safe)
  tools/seedtest.py all <seed_dir>               # run every check against it (which checks catch it)

A seed dir holds patch.diff, demo.py and meta.json ({"property": "Cxx", ...}).
Nothing is ever committed to /repo; the patch is reverted in a finally block.
"""
import json
import os
import subprocess
import sys
import time

ROOT = os.path.dirname(os.path.dirname(os.path.abspath(__file__)))
ALL = [f"C{i:02d}" for i in range(1, 20)]


def sh(cmd, **kw):
    return subprocess.run(cmd, shell=True, stdout=subprocess.PIPE, stderr=subprocess.STDOUT, text=True, **kw)


def verify(seed):
    wt = f"/tmp/seedverify_{os.getpid()}"
    sh(f"git -C /repo worktree add -q --detach {wt} HEAD")
    out = {}
    try:
        demo = os.path.join(seed, "demo.py")
        env = f"cd {wt} && PYTHONPATH={wt} /venv/bin/python"
        r = sh(f"{env} {demo}")
        out["demo_clean_rc"] = r.returncode
        a = sh(f"git -C {wt} apply {os.path.join(seed, 'patch.diff')}")
        out["apply_rc"] = a.returncode
        if a.returncode != 0:
            out["apply_out"] = a.stdout[-500:]
        t = sh(f"{env} -m pytest -q -p no:cacheprovider 2>&1 | tail -1")
        out["tests_with_patch"] = t.stdout.strip()
        r = sh(f"{env} {demo}")
        out["demo_patched_rc"] = r.returncode
        out["demo_patched_tail"] = r.stdout[-400:]
        out["ok"] = (out["demo_clean_rc"] == 0 and a.returncode == 0 and "266 passed" in out["tests_with_patch"]
                     and out["demo_patched_rc"] != 0)
    finally:
        sh(f"git -C /repo worktree remove --force {wt}")
    return out


def run_checks(seed, props, tier="quick"):
    assert sh("git -C /repo status --porcelain").stdout.strip() == "", "/repo must be clean"
    res = {}
    a = sh(f"git -C /repo apply {os.path.join(seed, 'patch.diff')}")
    assert a.returncode == 0, a.stdout
    try:
        for p in props:
            t0 = time.time()
            r = sh(f"cd {ROOT} && ./vcheck {p} --tier {tier}")
            lines = r.stdout.splitlines()
            res[p] = {
                "rc": r.returncode,
                "violations": [l for l in lines if l.startswith("VIOLATION")][:6],
                "n_violations": sum(1 for l in lines if l.startswith("VIOLATION")),
                "harness_errors": [l[:300] for l in lines if l.startswith("HARNESS-ERROR")][:4],
                "summary": lines[-1] if lines else "",
                "wall_s": round(time.time() - t0, 1),
            }
            print(p, res[p]["rc"], res[p]["n_violations"], res[p]["summary"][:160], flush=True)
    finally:
        sh("git -C /repo checkout -- .")
        # evidence files were rewritten against a patched tree: restore the committed ones
        sh(f"cd {ROOT} && git checkout -- evidence")
    return res


def run_checks_scratch(seed, props, tier="quick"):
    """As run_checks, but without touching /repo: the patch is applied in a scratch worktree of /repo's HEAD that is put in
    front of the import path (PYTHONPATH precedes the venv's .pth entry for /repo; the harness prints which valida it
    imported and that is asserted here), evidence / replays go to a scratch directory (VERIF_OUT)."""
    tag = f"{os.path.basename(seed)}_{os.getpid()}"
    wt, out = f"/tmp/seedrun_{tag}", f"/tmp/seedout_{tag}"
    sh(f"git -C /repo worktree add -q --detach {wt} HEAD")
    res = {}
    try:
        a = sh(f"git -C {wt} apply {os.path.join(seed, 'patch.diff')}")
        assert a.returncode == 0, a.stdout
        w = sh(f"cd {ROOT} && PYTHONPATH={wt} .venv/bin/python -c 'import valida; print(valida.__file__)'")
        assert w.stdout.strip().startswith(wt), w.stdout
        for p in props:
            t0 = time.time()
            r = sh(f"cd {ROOT} && PYTHONPATH={wt} VERIF_OUT={out} ./vcheck {p} --tier {tier}")
            lines = r.stdout.splitlines()
            res[p] = {
                "rc": r.returncode,
                "violations": [l for l in lines if l.startswith("VIOLATION")][:6],
                "n_violations": sum(1 for l in lines if l.startswith("VIOLATION")),
                "harness_errors": [l[:300] for l in lines if l.startswith("HARNESS-ERROR")][:4],
                "summary": lines[-1] if lines else "",
                "wall_s": round(time.time() - t0, 1),
                "how": "scratch worktree on PYTHONPATH",
            }
            print(os.path.basename(seed), p, res[p]["rc"], res[p]["n_violations"], res[p]["summary"][:160], flush=True)
    finally:
        sh(f"git -C /repo worktree remove --force {wt}")
        sh(f"rm -rf {out}")
    return res


def main():
    mode, seed = sys.argv[1], os.path.abspath(sys.argv[2])
    meta = json.load(open(os.path.join(seed, "meta.json")))
    if mode == "verify":
        out = verify(seed)
        print(json.dumps(out, indent=1))
        sys.exit(0 if out.get("ok") else 1)
    props = sys.argv[3:] or [meta["property"]]
    if mode == "all":
        props = ALL
    res = run_checks_scratch(seed, props) if mode == "srun" else run_checks(seed, props)
    path = os.path.join(seed, "result.json")
    old = json.load(open(path)) if os.path.exists(path) else {}
    old.update(res)
    json.dump(old, open(path, "w"), indent=1)


if __name__ == "__main__":
    main()
