#!/bin/sh
# tools/regress_seeds.sh [glob]: run every kept seeded change (default: all) against its own check on the current /repo HEAD.
# Each seed: verify in a scratch worktree (tests pass with the patch, demo fails with / passes without), then apply to /repo,
# run the quick check of its property, revert. Writes seeded/<id>/verify.json, result.json and seeded/REGRESSION.txt.
# /repo must be clean and nothing else may be using it.
cd "$(dirname "$0")/.."
G=${1:-*}
OUT=seeded/REGRESSION.txt
: > $OUT.tmp
for d in seeded/$G; do
  [ -f $d/patch.diff ] || continue
  id=$(basename $d)
  python3 tools/seedtest.py verify $d > $d/verify.json 2>&1
  if grep -q '"ok": true' $d/verify.json; then
    line=$(python3 tools/seedtest.py run $d 2>&1 | tail -1 | cut -c1-160)
    echo "$id $line" | tee -a $OUT.tmp
  else
    echo "$id SKIPPED (does not verify on this tree: $(grep -o '"superseded"' $d/meta.json >/dev/null 2>&1 && echo superseded || echo see verify.json))" | tee -a $OUT.tmp
  fi
done
mv $OUT.tmp $OUT
echo REGRESSDONE
