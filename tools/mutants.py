#!/usr/bin/env python3
"""Systematic syntactic mutants of /repo/valida (sensitivity calibration of the checks; not a registered check).

  tools/mutants.py gen  <outdir>            generate mutant files (one small AST-level change each; the whole file re-emitted with ast.unparse) that still pass
                                            the repository's test suite ("test-suite survivors")
  tools/mutants.py run  <outdir> [N] [seed] run the mapped quick checks against a sample of N survivors (apply to /repo,
                                            run, revert) and write <outdir>/results.json

Mutation operators: comparison operator swaps, and/or swaps, `not` removal, dropped `break`/`continue`,
integer constant +-1, index 0 <-> -1, removed entry of an except tuple, True/False swap, `is`/`==` swap.
"""
import ast
import json
import os
import random
import subprocess
import sys
import time

REPO = "/repo"
ROOT = os.path.dirname(os.path.dirname(os.path.abspath(__file__)))
FILES = ["valida/callables.py", "valida/conditions.py", "valida/data.py", "valida/datapath.py", "valida/rules.py",
         "valida/schema.py", "valida/utils.py", "valida/casting.py"]
# which checks to run for a mutant: by enclosing function first (most specific), then by file
BY_FUNC = [
    ("ContainerValue.from_spec", ["C10", "C19", "C16", "C12"]), ("DataPath.from_spec", ["C10", "C19", "C16", "C17"]),
    ("from_part_specs", ["C10", "C12", "C16"]), ("from_str", ["C10"]), ("Rule.from_spec", ["C10", "C19", "C16", "C13"]),
    ("from_spec", ["C09", "C19", "C16", "C11"]),
    ("to_part_specs", ["C12", "C13"]), ("to_spec", ["C12", "C11"]), ("simplify", ["C12", "C15", "C18"]),
    ("Rule.to_json_like", ["C13"]), ("Schema.to_json_like", ["C13"]), ("_arg_to_json_like", ["C11", "C12"]), ("to_json_like", ["C11", "C13", "C12"]),
    ("__eq__", ["C14", "C10", "C12"]), ("_members", ["C14", "C09"]),
    ("_get_resolved_data_path_args", ["C17", "C01"]), ("PreparedConditionCallable", ["C17", "C01"]),
    ("Condition._filter", ["C01", "C05", "C07"]), ("ConditionBinaryOp", ["C02", "C14", "C05"]), ("flatten", ["C02", "C10"]), ("is_like", ["C10", "C02"]),
    ("KeyLike", ["C01", "C03"]), ("IndexLike", ["C01", "C03"]), ("ConditionLike.test", ["C01"]), ("null_condition_binary_check", ["C02"]),
    ("set_datum", ["C15", "C07"]), ("Data.__init__", ["C03", "C01", "C07"]), ("Data.get", ["C03"]), ("extract_paths", ["C05", "C06"]),
    ("get_failure_by_index", ["C05"]), ("FilteredData", ["C01", "C02", "C05"]), ("Data.", ["C01", "C03", "C08"]),
    ("get_data", ["C03", "C04", "C05"]), ("_extract_specified_datum_type", ["C04", "C17"]), ("_match_specified_multi_type", ["C04", "C17"]),
    ("_copy_with", ["C04", "C14"]), ("MULTI_TYPE", ["C04", "C10"]), ("__truediv__", ["C18", "C02"]), ("DataPath.__init__", ["C03", "C10", "C14"]),
    ("get_container_value_condition", ["C10", "C02", "C03"]), ("MapOrListValue.filter", ["C03", "C02", "C08"]), (".filter", ["C03", "C02"]),
    ("MapOrListValue", ["C10", "C03", "C14"]), ("MapValue", ["C10", "C03"]), ("ListValue", ["C10", "C03"]),
    ("Rule.test", ["C15", "C07", "C08"]), ("RuleTest._test", ["C05", "C06", "C17"]), ("Rule.__init__", ["C05", "C10"]),
    ("add_schema", ["C18", "C13"]), ("ValidatedData", ["C06", "C15", "C08"]), ("Schema.", ["C06", "C18", "C13"]),
    ("get_func_args_by_kind", ["C09", "C11"]),
]
CHECKS = {
    "valida/callables.py": ["C01", "C07"],
    "valida/conditions.py": ["C01", "C02", "C09", "C11"],
    "valida/data.py": ["C01", "C03", "C05", "C15"],
    "valida/datapath.py": ["C03", "C04", "C10", "C12"],
    "valida/rules.py": ["C05", "C15", "C10", "C13"],
    "valida/schema.py": ["C06", "C18", "C13", "C15"],
    "valida/utils.py": ["C02", "C09", "C11"],
    "valida/casting.py": ["C15", "C07", "C10"],
}


def checks_for(m):
    for key, lst in BY_FUNC:
        if key in m["func"]:
            return lst
    return CHECKS[m["file"]]


SKIP_FUNCS = {"to_tree", "write_tree_html", "format_map_key_value_data_type_conditions", "validate_rule_paths",
              "resolve_implicit_types", "__repr__", "get_failures_string", "print_failures", "from_yaml_file",
              "get_always_applicable_key_conditions", "get_always_applicable_type_like_conditions"}

CMP_SWAP = {ast.Eq: ast.NotEq, ast.NotEq: ast.Eq, ast.Lt: ast.LtE, ast.LtE: ast.Lt, ast.Gt: ast.GtE, ast.GtE: ast.Gt,
            ast.Is: ast.Eq, ast.IsNot: ast.NotEq, ast.In: ast.NotIn, ast.NotIn: ast.In}


class Collector(ast.NodeVisitor):
    def __init__(self):
        self.sites = []
        self.func = []

    def visit_FunctionDef(self, node):
        self.func.append(node.name)
        if node.name not in SKIP_FUNCS:
            self.generic_visit(node)
        self.func.pop()

    def visit_ClassDef(self, node):
        self.func.append(node.name)
        self.generic_visit(node)
        self.func.pop()

    def add(self, node, kind, detail=None):
        self.sites.append((node.lineno, node.col_offset, kind, detail, ".".join(self.func)))

    def visit_Compare(self, node):
        if len(node.ops) == 1 and type(node.ops[0]) in CMP_SWAP:
            self.add(node, "cmp")
        self.generic_visit(node)

    def visit_BoolOp(self, node):
        self.add(node, "boolop")
        self.generic_visit(node)

    def visit_UnaryOp(self, node):
        if isinstance(node.op, ast.Not):
            self.add(node, "not")
        self.generic_visit(node)

    def visit_Break(self, node):
        self.add(node, "break")

    def visit_Continue(self, node):
        self.add(node, "continue")

    def visit_Constant(self, node):
        if isinstance(node.value, bool):
            self.add(node, "bool")
        elif isinstance(node.value, int) and node.value in (0, 1, -1, 2, 3):
            self.add(node, "int")

    def visit_ExceptHandler(self, node):
        if isinstance(node.type, ast.Tuple) and len(node.type.elts) > 1:
            for i in range(len(node.type.elts)):
                self.add(node, "except", i)
        self.generic_visit(node)


class Mutator(ast.NodeTransformer):
    def __init__(self, site):
        self.site = site
        self.done = False

    def match(self, node, kind):
        return (not self.done and getattr(node, "lineno", None) == self.site[0] and getattr(node, "col_offset", None) == self.site[1]
                and self.site[2] == kind)

    def visit_Compare(self, node):
        if self.match(node, "cmp"):
            self.done = True
            node.ops = [CMP_SWAP[type(node.ops[0])]()]
            return node
        return self.generic_visit(node)

    def visit_BoolOp(self, node):
        if self.match(node, "boolop"):
            self.done = True
            node.op = ast.Or() if isinstance(node.op, ast.And) else ast.And()
            return node
        return self.generic_visit(node)

    def visit_UnaryOp(self, node):
        if self.match(node, "not"):
            self.done = True
            return node.operand
        return self.generic_visit(node)

    def visit_Break(self, node):
        if self.match(node, "break"):
            self.done = True
            return ast.Pass()
        return node

    def visit_Continue(self, node):
        if self.match(node, "continue"):
            self.done = True
            return ast.Pass()
        return node

    def visit_Constant(self, node):
        if self.match(node, "bool"):
            self.done = True
            return ast.copy_location(ast.Constant(not node.value), node)
        if self.match(node, "int"):
            self.done = True
            return ast.copy_location(ast.Constant({0: -1, -1: 0, 1: 0, 2: 1, 3: 2}[node.value]), node)
        return node

    def visit_ExceptHandler(self, node):
        if self.match(node, "except"):
            self.done = True
            elts = list(node.type.elts)
            del elts[self.site[3]]
            node.type = elts[0] if len(elts) == 1 else ast.Tuple(elts, ast.Load())
            return node
        return self.generic_visit(node)


def sh(cmd, **kw):
    return subprocess.run(cmd, shell=True, stdout=subprocess.PIPE, stderr=subprocess.STDOUT, text=True, **kw)


def gen(outdir):
    os.makedirs(outdir, exist_ok=True)
    wt = f"/tmp/mutgen_{os.getpid()}"
    sh(f"git -C {REPO} worktree add -q --detach {wt} HEAD")
    index = []
    try:
        for f in FILES:
            src = open(os.path.join(wt, f)).read()
            col = Collector()
            col.visit(ast.parse(src))
            for n, site in enumerate(col.sites):
                tree = ast.parse(src)
                m = Mutator(site)
                new = m.visit(tree)
                if not m.done:
                    continue
                ast.fix_missing_locations(new)
                try:
                    new_src = ast.unparse(new) + "\n"
                except Exception:
                    continue
                open(os.path.join(wt, f), "w").write(new_src)
                t = sh(f"cd {wt} && PYTHONPATH={wt} timeout 120 /venv/bin/python -m pytest -q -x -p no:cacheprovider 2>&1 | tail -1")
                survived = "266 passed" in t.stdout
                if survived:
                    mid = f"{os.path.basename(f)[:-3]}_{site[0]}_{site[1]}_{site[2]}{'' if site[3] is None else site[3]}"
                    open(os.path.join(outdir, mid + ".py"), "w").write(new_src)
                    index.append({"id": mid, "file": f, "line": site[0], "kind": site[2], "func": site[4]})
                sh(f"git -C {wt} checkout -- {f}")
            print(f, len(col.sites), "sites;", sum(1 for i in index if i["file"] == f), "survive the test suite", flush=True)
    finally:
        sh(f"git -C {REPO} worktree remove --force {wt}")
    json.dump(index, open(os.path.join(outdir, "index.json"), "w"), indent=1)
    print(len(index), "test-suite survivors")


def run(outdir, n, seed):
    index = json.load(open(os.path.join(outdir, "index.json")))
    rnd = random.Random(seed)
    sample = index[:]
    rnd.shuffle(sample)
    sample = sample[:n]
    respath = os.path.join(outdir, "results.json")
    results = json.load(open(respath)) if os.path.exists(respath) else {}
    assert sh(f"git -C {REPO} status --porcelain").stdout.strip() == "", "/repo must be clean"
    for m in sample:
        if m["id"] in results:
            continue
        import shutil

        shutil.copy(os.path.join(outdir, m["id"] + ".py"), os.path.join(REPO, m["file"]))
        r = {"file": m["file"], "line": m["line"], "kind": m["kind"], "func": m["func"], "checks": {}}
        try:
            for p in checks_for(m):
                t0 = time.time()
                c = sh(f"cd {ROOT} && ./vcheck {p} --tier quick")
                nv = sum(1 for ln in c.stdout.splitlines() if ln.startswith("VIOLATION"))
                r["checks"][p] = {"rc": c.returncode, "violations": nv, "wall": round(time.time() - t0)}
                if c.returncode == 1 and nv:
                    break  # killed
            r["killed_by"] = [p for p, v in r["checks"].items() if v["rc"] == 1 and v["violations"]]
            r["nonzero"] = [p for p, v in r["checks"].items() if v["rc"] != 0]
        finally:
            sh(f"git -C {REPO} checkout -- .")
            sh(f"cd {ROOT} && git checkout -- evidence")
        results[m["id"]] = r
        json.dump(results, open(respath, "w"), indent=1)
        print(m["id"], m["func"], "killed by", r["killed_by"] or "NOTHING", flush=True)
    killed = sum(1 for r in results.values() if r.get("killed_by"))
    print(f"{killed}/{len(results)} sampled test-suite survivors killed")


if __name__ == "__main__":
    if sys.argv[1] == "gen":
        gen(sys.argv[2])
    else:
        run(sys.argv[2], int(sys.argv[3]) if len(sys.argv) > 3 else 30, int(sys.argv[4]) if len(sys.argv) > 4 else 0)
