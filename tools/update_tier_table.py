#!/usr/bin/env python3
"""Rewrite the quick columns of DESIGN.md's section-6 tier table from /verif/evidence/*.json (quick tier evidence)."""
import json, os, re
ROOT = os.path.dirname(os.path.dirname(os.path.abspath(__file__)))
p = os.path.join(ROOT, "DESIGN.md")
s = open(p).read()
tot_cases, tot_wall = 0, 0.0
for i in range(1, 20):
    pid = f"C{i:02d}"
    ev = json.load(open(os.path.join(ROOT, "evidence", pid + ".json")))
    assert ev["tier"] == "quick", pid
    c = ev["coverage"]
    tot_cases += c["cases"]; tot_wall += ev["wall_s"]
    m = re.search(rf"^\| {pid} \| [^|]* \| [^|]* \| [^|]* \|", s, flags=re.M)
    new = f"| {pid} | {c['cases']} | {c['states']} / {c['transitions']} | {round(ev['wall_s'])} s |"
    s = s[:m.start()] + new + s[m.end():]
m = re.search(r"^\| total \| [^|]* \| [^|]*\| [^|]* \|", s, flags=re.M)
s = s[:m.start()] + f"| total | {tot_cases} | | {round(tot_wall / 60)} min |" + s[m.end():]
open(p, "w").write(s)
print(tot_cases, round(tot_wall / 60, 1))
