#!/bin/sh
# run every thorough command end-to-end once (from the committed snapshot), log a summary line per property
./setup.sh >/dev/null 2>&1
for p in C14 C04 C15 C12 C17 C18 C08 C13 C06 C16 C10 C03 C02 C11 C19 C09 C07 C01 C05; do
  echo "=== $p $(date +%H:%M:%S)"
  ./vcheck $p --tier thorough 2>&1 | grep -v "^NOTE" | tail -3 | cut -c1-300
done
echo ALLDONE $(date +%H:%M:%S)
