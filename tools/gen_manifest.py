#!/usr/bin/env python3
"""Regenerate /verif/MANIFEST.json from the table below (run after adding a property module)."""
import json
import os

ROOT = os.path.dirname(os.path.dirname(os.path.abspath(__file__)))

TECH = ("bounded symbolic execution of the real valida functions (CrossHair 0.0.110 + z3): per case a fixed skeleton "
        "with symbolic atoms, assertion against a reference model, solver verdict over all atom values within the "
        "stated bounds; counterexamples replayed concretely")
NOTE = ("Trusted: CrossHair's models of Python builtins, z3, the reference models in engine/oracle.py (validated "
        "against the repo's test literals and per-case concrete witness runs). Bounds per case family are in the "
        "evidence file (coverage.bounds); skeletons are enumerated, atoms are solver-decided; UNKNOWN/KILLED cases "
        "are reported as not discharged and never counted as confirmed.")

CLAIMS = {
    "C01": ("for each of the 149 leaf kinds (datum kind x pre-processor x callable) the filter result, selected values/keys and "
            "failure indices equal the reference meaning for every value and type of the symbolic leaves and arguments; any "
            "escaping exception is a violation", "3 C01"),
    "C02": ("every and/or/xor tree shape up to the stated depth with null operands in every position filters as the pointwise Boolean "
            "combination (null = identity) for every truth assignment the symbolic thresholds/leaves can realise; one inductive step "
            "(operands' identity graph and results unchanged by construction, on every path) covers operand reuse in any sequence",
            "3 C02"),
    "C03": ("for each path skeleton (primitive/map/list/map-or-list parts with condition trees) over heterogeneous 3-level documents (paths of 4-7 parts over a six-level document with five-item lists), "
            "the selected nodes (by identity) and concrete paths equal the part-by-part reference walk for every value of the symbolic "
            "leaves, primitive parts and thresholds; entry points agree", "3 C03"),
    "C04": ("for every (value, path) returned, indexing the original document along the path reaches that very object, paths are "
            "pairwise distinct and values without paths are the same objects in order; every (datum modifier x multiplicity modifier) "
            "pair in both application orders equals the reference function of the reference walk, for every value of the symbolic "
            "leaves/parts; single() errors iff several match; multiplicity modifiers refused on concrete paths", "3 C04"),
    "C05": ("Rule.test verdict, tested flag, failure count and the ordered failure list (node identity, truthful concrete path, >= 1 "
            "reason) equal the reference rule semantics for every value of the symbolic leaves, thresholds and primitive parts, per "
            "(path skeleton x value-kind condition tree x document skeleton)", "3 C05"),
    "C06": ("for each rule multiset (0-3 rules quick, 4 thorough) EVERY permutation of the rule list is built and validated inside one "
            "symbolic run: validity = conjunction, failure count = sum, tested count, rule order (stable, shortest first), the set of "
            "(rule, failing path) and the report text (a str naming every failing path) equal the reference for every value of the "
            "symbolic leaves/thresholds", "3 C06"),
    "C07": ("absence of exceptions from Schema.validate/Rule.test decided for every value and type of the symbolic leaves and "
            "arguments: one schema per callable (all 32 on value, 17 under length and under dtype) over fan-out paths through a "
            "document with leaves of every type, plus cast schemas over keys of every type, list indices, fan-out, nesting and "
            "the empty path with convertible and unconvertible cast strings", "3 C07"),
    "C15": ("cast_data equals, type-exactly, the document with exactly the castable selected nodes replaced (expected conversions from "
            "an independent table) for every value of the symbolic non-castable leaves, thresholds, list index and key, per path shape "
            "(keys of every type, list indices, fan-out, nesting, empty/missing path); caller's document unchanged; verdicts judged on "
            "the cast values", "3 C15"),
    "C08": ("one inductive step per operation (filter, get, Rule.test, Schema.validate; with/without casts; raw and Data-wrapped "
            "documents): on every symbolic path the identity graph of all valida objects reachable from the arguments and the "
            "type-exact structure and container identities of the caller's document are unchanged; plus sequences of 2-4 calls on "
            "shared objects equal to the same calls on fresh objects. Arbitrary sequences/interleavings follow by induction "
            "(only reads are shared); threads are not executed", "3 C08"),
    "C09": ("for every leaf kind x argument shape x enumerated key spelling (case variants, aliases, type names), from_spec(spec) equals the "
            "DSL-built condition (same class) and both filter identically, for every value of the symbolic arguments and probe leaf; "
            "and/or/xor spec lists nested to depth 2; data-path arguments written as specs (incl. the root path) judged through a rule", "3 C09"),
    "C10": ("for each part / path / path-string / rule spec form, the parsed object equals the API-built one and both select / "
            "validate identically on symbolic documents, for every value of the symbolic condition arguments, primitive parts and "
            "labels; the YAML text route (Schema.from_yaml, from_yaml_file) is outside the solver's claim and exercised on each "
            "case's concrete witness only", "3 C10"),
    "C16": ("one inductive step per entry point and spec form: the caller's spec is type-exactly unchanged by a parse, the second and "
            "third parse of the same structure equal the first and the module lookup tables are unchanged, for every value of the "
            "symbolic atoms inside the spec - hence any number of repeated parses", "3 C16"),
    "C19": ("(a) every injected definite error - incl. every non-DSL attribute name of the seven condition classes and of DataPath, "
            "regenerated from the source each run - must raise one of the listed spec errors (never be accepted, never an internal "
            "error), for every value of the symbolic payload; (b) at 28 spec positions every payload skeleton with symbolic atoms is "
            "accepted or rejected with a listed error", "3 C19"),
    "C11": ("for each leaf of the meaningful DSL x argument kind (JSON-like, types, data paths, path-like literal mappings) and nested "
            "combinations: the serialised form is structurally pure JSON, the rebuilt condition equals the original, re-serialisation "
            "is identical and both filter / validate identically, for every value of the symbolic atoms; real json.dumps/loads on the "
            "concrete witness of each case", "3 C11"),
    "C12": ("for each API-built or spec-built path (non-equality key/index conditions, value conditions, combined conditions, differing "
            "key/index, labels): to_part_specs either raises or yields structurally pure JSON specs whose rebuilt path selects the "
            "same nodes (by identity) with the same concrete paths for every value of the symbolic atoms and leaves, and equals the "
            "original when that was built from specs; path specs with modifiers (to_spec) likewise", "3 C12"),
    "C13": ("for each schema of 1-3 rules (C11-fragment conditions, C12-serialisable paths, with/without casts): serialised form "
            "structurally pure JSON, rebuilt schema and rules equal the originals and give the same validity, failure paths, tested "
            "count and cast data for every value of the symbolic atoms and non-castable leaves; real JSON text on each witness",
            "3 C13"),
    "C17": ("for each placement of a data-path argument (positional, keyword, two at once, inside list / mapping / keyword-mapping "
            "arguments, concrete and non-concrete, with modifiers, absent, API-built and spec-parsed, escaped literals) the rule's "
            "verdict and failures equal those of the same rule with the argument replaced by the reference walk's selection, for "
            "every value of the referenced value, the leaves and thresholds", "3 C17"),
    "C18": ("per (S, T, root) combination and per sequence (same T under two roots; T into two schemas): S's rules and verdicts equal "
            "the reference (own rules + T's rules walked from the root) and the identity graph of T and its rules is unchanged on "
            "every symbolic path - the inductive step that makes every later addition independent - for every value of the "
            "symbolic leaves and threshold", "3 C18"),
    "C14": ("equality laws (reflexive/symmetric/transitive, rebuilt and commuted copies equal) and 'equal implies same "
            "behaviour' decided for every value of the differing atom (key, index, argument, label) and of the probe "
            "document's leaves, per term kind", "3 C14"),
}

NOT_APPLICABLE = {
    "C20": "to_tree consumes its inputs only through str()/repr() and dict keys built from them (every symbolic atom is "
           "realised at once, the solver decides nothing) and the HTML half is html.escape/re.sub text processing that "
           "CrossHair+z3 cannot decide (measured: len<=1 paragraph, 51747 queries, 417 s, not confirmed; z3 unknown on "
           "str.replace_all); see DESIGN.md section 4",
}


def main():
    props = [json.loads(l) for l in open(os.path.join(ROOT, "properties.jsonl"))]
    checks = []
    na = []
    for p in props:
        pid = p["id"]
        if pid in CLAIMS and os.path.exists(os.path.join(ROOT, "props", pid + ".py")):
            text, ref = CLAIMS[pid]
            checks.append({
                "property_id": pid,
                "quick_cmd": f"./vcheck {pid} --tier quick",
                "thorough_cmd": f"./vcheck {pid} --tier thorough",
                "evidence_file": f"/verif/evidence/{pid}.json",
                "replay_cmd_template": "./vcheck replay {path}",
                "engine": "crosshair-z3",
                "level_claimed": {"category": "model_checking",
                                  "text": "bounded symbolic model checking of the real code: " + text,
                                  "design_ref": "DESIGN.md section " + ref},
                "level_note": NOTE,
                "technique": TECH,
            })
        else:
            na.append({"property_id": pid,
                       "reason": NOT_APPLICABLE.get(pid, "check not built yet (planned: DESIGN.md section 3); not claimed")})
    m = {
        "version": 1,
        "setup_cmd": "./setup.sh",
        "hooks": {
            "guard": "VALIDA_VERIF",
            "enable": "no hooks: every stub is installed harness-side in the worker process (engine/prelude.py apply_stubs); "
                      "checks import /repo/valida from the working tree as it is",
            "baseline_off_cmd": "cd /repo && /venv/bin/python -m pytest -ra -q -p no:cacheprovider --timeout=900 --continue-on-collection-errors",
            "source_commits": [],
            "add_only": True,
        },
        "engines": [{
            "name": "crosshair-z3",
            "path": "/verif/engine",
            "serves_properties": [c["property_id"] for c in checks],
            "kind_free_text": "CrossHair symbolic execution of /repo/valida with z3; one hard-killable worker process per case; "
                              "reference models in engine/oracle.py; concrete replay of every counterexample",
        }],
        "checks": checks,
        "not_applicable": na,
        "notes": "Exit codes: 0 held on everything explored (KNOWN-FINDING lines possible), 1 VIOLATION (reproduced concretely), "
                 "3 harness error (a counterexample that does not reproduce, or a vacuous case). known_findings.json lists open "
                 "findings and fixed: entries.",
    }
    with open(os.path.join(ROOT, "MANIFEST.json"), "w") as f:
        json.dump(m, f, indent=1)
    print("claimed:", [c["property_id"] for c in checks])


if __name__ == "__main__":
    main()
